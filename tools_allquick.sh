#!/bin/bash
# run every quick check on the current tree; summary to stdout
cd /verif
for id in ${@:-C01 C02 C03 C04 C05 C06 C07 C08 C09 C10 C11 C12 C13 C14 C15 C16 C17 C18 C19}; do
  t0=$(date +%s)
  VERIF_SEED=${VERIF_SEED:-0} timeout 3600 ./check $id quick > /tmp/allq_$id.log 2>&1
  rc=$?
  echo "$id rc=$rc t=$(( $(date +%s) - t0 ))s viol=$(grep -c '^VIOLATION' /tmp/allq_$id.log) kf=$(grep -c '^KNOWN-FINDING' /tmp/allq_$id.log) herr=$(grep -c 'HARNESS-ERROR' /tmp/allq_$id.log)"
done
