#!/usr/bin/env python3
"""runs the detection matrix for every confirmed seeded change that has no recorded check run yet"""
import json, glob, os, subprocess
MAP = {"C01-a": "C11 C10", "C01-b": "C01", "C02-a": "C13 C02", "C02-b": "C08", "C03": "C03", "C04": "C04 C01", "C05": "C05", "C06": "C06",
       "C07": "C07", "C08": "C08", "C09": "C09", "C10": "C10", "C11": "C11", "C12": "C12", "C13": "C13", "C14": "C14", "C15": "C15",
       "C16": "C16", "C17": "C17", "C18": "C18", "C19": "C19"}
for d in sorted(glob.glob("/verif/seeded/*/")):
    sid = os.path.basename(d.rstrip("/"))
    mp = d + "meta.json"
    if not os.path.exists(mp):
        continue
    m = json.load(open(mp))
    if m.get("check_runs"):
        continue
    checks = MAP.get(sid[:5]) or MAP.get(sid[:3])
    print("==", sid, checks, flush=True)
    subprocess.run(f"cd /verif && ./tools_mutrun.py {sid} {checks} | cut -c1-240", shell=True)
