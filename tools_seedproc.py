#!/usr/bin/env python3
"""usage: tools_seedproc.py <PROP> <tag> <seeded-id> [check ids...]
Confirms a sub-agent's change (from /tmp/mw/out_<PROP>_<tag>) in a fresh scratch worktree:
 demo passes without the patch, fails with it, the repository's test suite passes with it;
then runs the given quick checks (default: the property's own) against the patched worktree,
stores everything in /verif/seeded/<seeded-id>/ and removes the worktrees."""
import json, os, subprocess, sys, time

prop, tag, sid = sys.argv[1:4]
checks = sys.argv[4:]
# no check ids given: confirmation only (demo with/without the patch + the repository's suite with it)
out = f"/tmp/mw/out_{prop}_{tag}"
agent_wt = f"/tmp/mw/{prop}_{tag}"
dst = f"/verif/seeded/{sid}"


def sh(cmd, **kw):
    return subprocess.run(cmd, shell=True, capture_output=True, text=True, **kw)


if not os.path.exists(f"{out}/patch.diff") or not os.path.exists(f"{out}/demo.py"):
    sys.exit("missing patch.diff / demo.py")
wt = f"/tmp/mw/confirm_{sid}"
sh(f"cd /repo && git worktree remove --force {wt} 2>/dev/null; git worktree add -q --detach {wt} HEAD")
env = dict(os.environ, PYTHONPATH=f"{wt}/src", PATH="/venv/bin:" + os.environ["PATH"], PYTHONDONTWRITEBYTECODE="1")
r = sh(f"cd {wt} && git apply --check {out}/patch.diff")
if r.returncode:
    print("PATCH DOES NOT APPLY", r.stderr)
    sh(f"cd /repo && git worktree remove --force {wt}")
    sys.exit(3)
files = sh(f"cd {wt} && git apply --numstat {out}/patch.diff").stdout.strip()
clean = sh(f"cd {wt} && timeout 900 /venv/bin/python {out}/demo.py", env=env)
sh(f"cd {wt} && git apply {out}/patch.diff")
mut = sh(f"cd {wt} && timeout 900 /venv/bin/python {out}/demo.py", env=env)
print(f"demo rc clean={clean.returncode} patched={mut.returncode}", flush=True)
t0 = time.time()
suite = sh(f"cd {wt} && timeout 7200 /venv/bin/python -m pytest -q -p no:cacheprovider --timeout=3600 -n {os.environ.get('NPROC','8')} tests/ 2>&1 | tail -15", env=env)
suite_last = suite.stdout.strip().splitlines()[-1] if suite.stdout.strip() else "?"
print("suite:", suite_last, f"({time.time()-t0:.0f}s)", flush=True)
results = {}
os.makedirs("/tmp/mutlog", exist_ok=True)
for c in checks:
    log = f"/tmp/mutlog/{sid}_{c}.log"
    t0 = time.time()
    r = sh(f"cd /verif && VF_REPO_SRC={wt}/src timeout {os.environ.get('MUT_TIMEOUT','3000')} ./check {c} {os.environ.get('MUT_TIER','quick')} > {log} 2>&1")
    txt = open(log).read()
    nv = sum(1 for l in txt.splitlines() if l.startswith("VIOLATION"))
    first = ""
    ls = txt.splitlines()
    for i, l in enumerate(ls):
        if l.startswith("VIOLATION"):
            first = (ls[i + 1] if i + 1 < len(ls) else "")[:300]
            break
    results[c] = {"rc": r.returncode, "violations": nv, "first": first, "wall_s": round(time.time() - t0)}
    print(c, results[c], flush=True)
os.makedirs(dst, exist_ok=True)
sh(f"cp {out}/patch.diff {out}/demo.py {dst}/; [ -f {out}/notes.md ] && cp {out}/notes.md {dst}/")
ok = clean.returncode == 0 and mut.returncode != 0 and " failed" not in suite_last and "error" not in suite_last.lower() and "passed" in suite_last
if os.path.exists(f"{dst}/meta.json"):
    try:
        old = json.load(open(f"{dst}/meta.json"))
        results = dict(old.get("checks_quick_at_first_run", {}), **results)
    except Exception:
        pass
meta = {"id": sid, "property": prop, "confirmed": ok,
        "repo_head": sh("git -C /repo rev-parse --short HEAD").stdout.strip(),
        "files_changed": files,
        "needs_to_manifest": "see notes.md",
        "what_was_run": {"demo_rc_without_patch": clean.returncode, "demo_rc_with_patch": mut.returncode,
                         "suite_with_patch": suite_last,
                         "demo_tail_with_patch": (mut.stdout + mut.stderr)[-600:]},
        "checks_quick_at_first_run": results}
json.dump(meta, open(f"{dst}/meta.json", "w"), indent=1)
sh(f"cd /repo && git worktree remove --force {wt}; git worktree prune")
print("CONFIRMED" if ok else "NOT CONFIRMED", dst)
