#!/venv/bin/python
import sys, json
prop = sys.argv[1]
filt = dict(x.split("=",1) for x in sys.argv[2:] if "=" in x)
n = int(filt.pop("n", 1))
d = json.load(open(f"/verif/replays/{prop}-all.json"))
k = 0
for v in d:
    if all(str(v["sig"].get(a)) == b for a, b in filt.items()):
        a = v["art"]
        print("SEED", a.get("seed"), "PATH", json.dumps(a.get("path")))
        print("EVENT", json.dumps(a.get("event")))
        for key in ("diff","monitors","problems","detail","error","cell","input"):
            if key in a: print(key.upper(), json.dumps(a.get(key), default=str)[:500])
        print("--- before\n" + str(a.get("before")))
        print("--- after\n" + str(a.get("after")))
        k += 1
        if k >= n: break
