#!/usr/bin/env python3
"""usage: tools_mutrun.py <seeded-id | path/to/patch.diff> <check id>[:tier] ...
Applies the patch in a scratch worktree of /repo's HEAD (never in /repo), runs the checks against it
(VF_REPO_SRC), prints one line per check, records the result in seeded/<id>/meta.json when the id is
known, and removes the worktree."""
import json, os, subprocess, sys, time, hashlib

arg = sys.argv[1]
patch = arg if arg.endswith(".diff") else f"/verif/seeded/{arg}/patch.diff"
sid = None if arg.endswith(".diff") else arg
tag = hashlib.md5((patch + str(os.getpid())).encode()).hexdigest()[:8]
wt = f"/tmp/mw/mutwt_{tag}"


def sh(cmd, **kw):
    return subprocess.run(cmd, shell=True, capture_output=True, text=True, **kw)


sh(f"cd /repo && git worktree add -q --detach {wt} HEAD")
try:
    r = sh(f"cd {wt} && git apply {patch}")
    if r.returncode:
        sys.exit("PATCH DOES NOT APPLY: " + r.stderr)
    os.makedirs("/tmp/mutlog", exist_ok=True)
    results = {}
    for c in sys.argv[2:]:
        cid, _, tier = c.partition(":")
        tier = tier or "quick"
        log = f"/tmp/mutlog/{sid or tag}_{cid}_{tier}.log"
        t0 = time.time()
        r = sh(f"cd /verif && VF_EVIDENCE_DIR=/tmp/mutlog/evidence_{tag} VF_REPO_SRC={wt}/src timeout {os.environ.get('MUT_TIMEOUT','5400')} ./check {cid} {tier} > {log} 2>&1")
        ls = open(log).read().splitlines()
        nv = sum(1 for l in ls if l.startswith("VIOLATION"))
        first = ""
        for i, l in enumerate(ls):
            if l.startswith("VIOLATION"):
                first = (ls[i + 1] if i + 1 < len(ls) else "")[:300]
                break
        results[f"{cid}:{tier}"] = {"rc": r.returncode, "violations": nv, "first": first.strip(), "wall_s": round(time.time() - t0),
                                    "verif_commit": sh("git -C /verif rev-parse --short HEAD").stdout.strip()}
        print(cid, tier, results[f"{cid}:{tier}"], log, flush=True)
    if sid and os.path.exists(f"/verif/seeded/{sid}/meta.json"):
        m = json.load(open(f"/verif/seeded/{sid}/meta.json"))
        m.setdefault("check_runs", []).append(results)
        json.dump(m, open(f"/verif/seeded/{sid}/meta.json", "w"), indent=1)
finally:
    sh(f"cd /repo && git worktree remove --force {wt}; git worktree prune; rm -rf /tmp/mutlog/evidence_{tag}")
