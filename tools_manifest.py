#!/venv/bin/python
"""regenerate MANIFEST.json from the table below (keeps it valid at all times)"""
import json, os
HERE = os.path.dirname(os.path.abspath(__file__))
BASE = json.load(open('/root/.vp/BASELINE.json'))
CHECKS = {}
def chk(pid, cat, technique, text, note, ref, thorough=True):
    CHECKS[pid] = dict(property_id=pid, quick_cmd=f"./check {pid} quick",
        evidence_file=f"/verif/evidence/{pid}.json", replay_cmd_template="./check replay {path}",
        engine="vf", level_claimed=dict(category=cat, text=text, design_ref=ref), level_note=note, technique=technique)
    if thorough:
        CHECKS[pid]["thorough_cmd"] = f"./check {pid} thorough"

chk("C11", "model_checking",
    "explicit-state enumeration of all proc_eqv API histories up to a depth bound, executed on the real module, against a per-field graph-closure reference model",
    "Every history of {new, derive(p,K), assert(p,q,K), drop+gc} up to depth 5 (quick) / 6 (thorough) over <=4 procedures and key sets from {a,b,c} is executed on the real union-find module (no state merging, module state reset per history) and after every step all pairwise queries for all K are compared with an independent per-field connectivity model; a second layer drives real Procedures through the public API (scheduling ops with/without config effects, partial_eval/transpose/add_assertion) and additionally cross-checks every reported equivalence semantically with the reference interpreter.",
    "trusts the 40-line reference closure and the reference interpreter; bounded depth/procedure count", "DESIGN.md §3 C11")

ALL = [f"C{i:02d}" for i in range(1, 20)]
PENDING_REASON = "check under construction in this session (design in DESIGN.md §3); not claimed until it runs silently on the unchanged tree"
def main():
    man = dict(version=1,
        setup_cmd="cd /verif && /venv/bin/python -m compileall -q vf >/dev/null; mkdir -p evidence replays; true",
        hooks=dict(guard="EXO_VERIF", enable="checks export EXO_VERIF=1; no source hooks are currently needed (instrumentation is done by wrapping from /verif)",
                   baseline_off_cmd=BASE["cmd"].replace("--junitxml=<file>", "--junitxml=/tmp/exo_baseline.junit.xml"), source_commits=[], add_only=True),
        engines=[dict(name="vf", path="/verif/vf", serves_properties=sorted(CHECKS),
                      kind_free_text="hand-written explicit-state / bounded-exhaustive explorer in Python driving the real exo implementation, with independent reference models (LoopIR interpreter over a polynomial normal form, graph closure, brute-force integer evaluation, gcc+sanitizers)")],
        checks=[CHECKS[k] for k in sorted(CHECKS)],
        notes="See DESIGN.md. Every check enumerates a finite stated space completely; VERIF_SEED only permutes exploration order / symbol counters.",
        not_applicable=[dict(property_id=p, reason=PENDING_REASON) for p in ALL if p not in CHECKS])
    json.dump(man, open(os.path.join(HERE, "MANIFEST.json"), "w"), indent=1)
if __name__ == "__main__":
    main()
