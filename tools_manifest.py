#!/venv/bin/python
"""regenerate MANIFEST.json from the table below (keeps it valid at all times)"""
import json, os
HERE = os.path.dirname(os.path.abspath(__file__))
BASE = json.load(open('/root/.vp/BASELINE.json'))
CHECKS = {}
def chk(pid, cat, technique, text, note, ref, thorough=True):
    CHECKS[pid] = dict(property_id=pid, quick_cmd=f"./check {pid} quick",
        evidence_file=f"/verif/evidence/{pid}.json", replay_cmd_template="./check replay {path}",
        engine="vf", level_claimed=dict(category=cat, text=text, design_ref=ref), level_note=note, technique=technique)
    if thorough:
        CHECKS[pid]["thorough_cmd"] = f"./check {pid} thorough"

chk("C11", "model_checking",
    "explicit-state enumeration of all proc_eqv API histories up to a depth bound, executed on the real module, against a per-field graph-closure reference model",
    "Every history of {new, derive(p,K), assert(p,q,K), drop+gc} up to depth 5 (quick) / 6 (thorough) over <=4 procedures and key sets from {a,b,c} is executed on the real union-find module (no state merging, module state reset per history) and after every step all pairwise queries for all K are compared with an independent per-field connectivity model; a second layer drives real Procedures through the public API (scheduling ops with/without config effects, partial_eval/transpose/add_assertion) and additionally cross-checks every reported equivalence semantically with the reference interpreter.",
    "trusts the 40-line reference closure and the reference interpreter; bounded depth/procedure count", "DESIGN.md §3 C11")

EXPL = ("hand-written explicit-state explorer (BFS, canonical-form de-duplication) whose transitions call the real scheduling "
        "primitives; oracle evaluated on every transition")
chk("C01", "model_checking", EXPL + ": reference-interpreter equivalence on the whole control domain with symbolic data",
    "Bounded breadth-first exploration in phases (reported separately in the evidence): (A) 61 curated seed procedures x the complete finite menu of "
    "(primitive, cursor/argument) events (all 57 exported primitives + 25 stdlib compositions), depth 1 (the thorough tier uses the wider thorough menus); "
    "(B) a generated dependence family (13 x 13 ordered statement pairs under one loop) and (B2) a generated loop-nest family (3 outer x 6 inner bound shapes x 6 bodies) "
    "under the dependence-guarded primitives (complete menu in the thorough tier); (C) depth 2 from two small seeds (structure-creating first step, complete menu as second step). "
    "Quick = about 100k transitions. "
    "For every transition that returns a procedure, source and result are executed by an independent LoopIR interpreter on every control "
    "valuation (sizes, index/bool args, window layouts, control-typed config state) with every data cell a distinct indeterminate, so equality of "
    "the polynomial normal forms is equality for ALL buffer contents up to real algebra; configuration fields are exempted only if the system reports them.",
    "trusts the reference interpreter (cross-validated against generated C in C02) and the polynomial normal form; small-scope: seeds, menus and sizes are bounded",
    "DESIGN.md §3 C01")
chk("C04", "model_checking", EXPL + ": structural validator + interpreter safety monitors + compile outcome",
    "Same exploration plan as C01 (generated families restricted to the dependence-guarded primitives); every returned procedure is checked by an independent scope/arity/type validator, executed with safety monitors "
    "(out-of-bounds on views, callee assertions/sizes/shapes, aliasing, negative loops, uninitialised values reaching outputs) on the whole control domain, "
    "and compiled: anything but success or a documented backend rejection is a violation.",
    "trusts validator and interpreter; T.Window type annotations are not part of the property and are not checked", "DESIGN.md §3 C04")
chk("C06", "model_checking", EXPL + ": node-identity forwarding oracle on every statement / gap / block cursor, edge and chain level",
    "For every transition p->q (including unsafe-flagged operations; curated seeds depth 1 + depth 2 from two small seeds; the thorough tier uses the wider thorough menus at depth 1) every statement cursor, every gap and every block "
    "(all contiguous ranges of statement lists of <= 6 statements) of p, and of every ancestor on the path from the seed, "
    "is forwarded to q; the result must be InvalidCursorError or resolve (fresh path walk) to the identical carried node object, never to a different carried statement, "
    "never dangling; a gap whose two neighbours are carried over and still adjacent must forward exactly between them, a block whose statements are carried over as one contiguous run must forward to exactly that run; implicit forwarding (passing the old cursor to an operation on q) must agree with explicit forwarding.",
    "identity-based oracle relies on rewrites sharing untouched node objects (true by construction of the cursor layer); rebuilt statements are only checked for non-dangling/ancestor-of-carried-descendants",
    "DESIGN.md §3 C06")
chk("C07", "model_checking", EXPL + ": deep fingerprints (content, Sym ids, node identities) of all live procedures before/after every event, successful or failing",
    "Every event of the full alphabet (including rejected and internally failing ones) is applied and the deep fingerprint and printed form of every live "
    "procedure (seed, ancestors, callees in scope) is compared before/after; queries (str, find_all) are included.",
    "fingerprints cover LoopIR content reachable from the procedure; module-level caches are covered by C18", "DESIGN.md §3 C07")

GEN = "bounded-exhaustive enumeration (full product of stated finite axes) driving the real implementation, against an independent oracle"
chk("C02", "translation_validation", GEN + ": generated C built with gcc+ASan/UBSan and run on the whole control domain, compared with the reference interpreter",
    "Every seed procedure and every member of the back-end program families (direct accesses, windows and windows of windows with dense/padded/strided/offset layouts, calls with window/dense/by-reference-scalar/size/index/bool parameters, floor div/mod on possibly negative operands in indices, conditions and bounds, allocation scopes x host memories, name clashes, precision pairs, config struct) is compiled by the real back end; the C is built with a generated driver and run on every control valuation; dumped backing stores (including padding), scalars and the context struct must equal the interpreter's result.",
    "gcc and the reference interpreter are trusted; data values are two fixed exact patterns (the generated C is data-oblivious); accelerator memories cannot be realised on the host", "DESIGN.md §3 C02")
chk("C08", "exploration", GEN + ": sanitizer-instrumented execution of the generated C on the whole control domain + allocation counting",
    "Same programs and driver as C02, built with AddressSanitizer and UBSan (no recovery) and -Werror=discarded-qualifiers; malloc/free in the generated unit are remapped to counting wrappers so every call must release exactly what it allocated; valuations on which the LoopIR itself is unsafe are attributed to C03 and skipped.",
    "sanitizers and gcc are trusted; MDRAM's custom allocator needs host-side init and is excluded", "DESIGN.md §3 C08")
chk("C10", "model_checking", EXPL + ": C01 equivalence oracle where exactly the configuration fields the system reports are exempt; call_eqv over derived/unrelated callees",
    "A generated configuration-dataflow family (all 9^3 sequences over writes at top level / in loops running 0, 1 or n times / under a guard / through a callee and reads at top level / in a loop) under 11 configuration-relevant operations at depth 1, plus exploration to depth 2 (quick) / 3 (thorough) from the configuration seeds restricted to the configuration-affecting operations and their neighbours, over all initial control-typed configuration states (real-valued fields symbolic); buffers must agree exactly and every differing field must be in the set the system reports; call_eqv is driven over callees derived with different mod-sets and an unrelated look-alike that must be refused.",
    "state cap per level reported as cap_hit when reached", "DESIGN.md §3 C10")
chk("C12", "exploration", GEN + ": probe procedures through the real front end and simplify, interpreter equivalence with per-iteration symbolic weights",
    "All quasi-affine expressions up to a node bound over the variables of 10 contexts (constant/symbolic/non-zero-lower-bound loops, two loops, index argument, guards, modulo assertion, shadowed and guard-then-shadowed iterators) are embedded as index, condition (3 forms), loop bound and (thorough) window bound / allocation extent; simplify(p) must equal p on every admitted valuation, pointwise per iteration.",
    "expression node bound 4 (quick) / 5 (thorough); literals from a small pool", "DESIGN.md §3 C12")
chk("C13", "exploration", GEN + ": brute-force integer evaluation of every valuation inside the stated intervals",
    "All index expressions up to 5 (quick) / 6 (thorough) nodes over two variables x all environments per variable (finite, half-open, unknown, absent) for index_range_analysis/constant_bound; IndexRange join on all pairs of a base x bound pool; assertion-derived argument ranges and check_expr_bound answers on real procedures; infer_range through the user API.",
    "unbounded sides truncated 6 beyond the finite end", "DESIGN.md §3 C13")
chk("C16", "exploration", GEN + ": independent matcher (declarative predicates over the IR in textual order) and navigation laws on every cursor",
    "For every seed procedure and its unroll/cut/divide/shift successors (duplicated names, expressions in loop lower bounds) the patterns derived from its own statements and expressions (exact text, holes, two-statement sequences, name shorthands) x #k for k=0..count are run through find_all/find/find_loop/find_alloc_or_arg/cursor-scoped find and compared by node path and order with an independent matcher; 17 navigation laws are checked at every statement cursor.",
    "restricted to the documented pattern fragment; extern-call expression patterns and mid-sequence statement holes are excluded", "DESIGN.md §3 C16")
chk("C17", "model_checking", EXPL + ": print -> real @proc re-parse -> alpha-isomorphism, overlapping-scope name collision, re-print identity and interpreter equivalence on every distinct state",
    "Every distinct state reached by the explorer is printed and fed back through the real parser and type checker with memories/configs/callees bound by name (the front end's safety analyses are bypassed: they judge the program, not its text).",
    "statement/expression type annotations are erased in the isomorphism check", "DESIGN.md §3 C17")
chk("C19", "exploration", GEN + ": reference interpreter with the documented input relation",
    "Every seed x partial_eval over every subset of control arguments and every value tuple of the control domain (keyword and positional), transpose of every 2-D argument (transposed store in / transposed result out), add_assertion over the condition alphabet (domain narrowing exactly), rename, make_instr, set_precision/memory/window on every buffer x value, parallelize_loop on every loop.",
    "sizes 1..3, index args -1..2", "DESIGN.md §3 C19")

chk("C03", "exploration", GEN + ": every accepted program executed by the reference interpreter with all safety monitors on its whole control domain x 4 window layouts",
    "Full products of the front-end families (access offset x loop bounds x guard x {direct, window, window of window, callee window/tensor parameter} x {write, read, reduce}; window extents/points x access; chains of two windows (first-level offset 0/1/2 x second-level offset x extent x {window statement, call argument, read}, 2-D row blocks, symbolic offsets); callee size expressions x assertions; shape, stride-assertion and aliasing variants; loop-bound pairs) plus the back-end families go through the real @proc; any out-of-bounds access (view or backing store), violated callee assertion, non-positive size argument, shape mismatch, aliased call arguments or negative loop range in an accepted program is a violation.",
    "interpreter monitors are trusted; sizes up to 4 (quick) / 6 (thorough)", "DESIGN.md §3 C03")
chk("C05", "model_checking", EXPL + ": equivalence with the callee executed from its body, call-site monitors, inline-back equivalence",
    "Exploration (depth 2 / 3) from the eight call seeds (kernels with transposed / strided / offset / guarded / reduction access patterns, and a guard family: five callees guarded by ==, <, <=, >, >= x eight kernels using each comparison, flipped operands and an offset x callees with window, size, index, bool and stride-assert parameters): replace on every block of length 1..3 with every candidate, replace_all, replace_all_stmts, inline, divide_loop, reorder_loops in between.",
    "state cap per level reported in the evidence", "DESIGN.md §3 C05")
chk("C09", "exploration", GEN + ": per-iteration conflict sets and all iteration permutations in the reference interpreter for every procedure the back end compiles",
    "A 14-statement dependence alphabet (singles and pairs) under `par` at six positions (top, inside seq, inside if, inside par, seq inside par, inside a callee) and parallelize_loop on every loop of every seed; when compile_procs_to_strings succeeds no two iterations may conflict (write/reduce vs read/write/reduce, reduce/reduce included) on any input and every permutation of <= 3 iterations must give the sequential result.",
    "OpenMP itself is not executed; interleavings within an iteration are covered by the conflict-set oracle", "DESIGN.md §3 C09")
chk("C14", "exploration", GEN + ": compiled wrapper (real back end + gcc) vs reference interpreter running the instruction's Exo body",
    "All 60 @instr procedures of exo.platforms.x86 (59 executable on this host: AVX2, FMA, AVX-512F/BW/VL) get an automatically generated wrapper: DRAM operands as windows at offsets 0..2 of a larger buffer, register operands loaded from / stored to DRAM around the call, every size/mask/bound argument admitted by the assertions (1..16), two lane-distinct exact data patterns; in addition every DRAM operand is passed once as a non-unit-stride window, which must either be refused by the instruction's own assertions or behave like the body.",
    "register load/store instructions are themselves among the instructions under test; values are small exact integers (integer precisions compare after truncation)", "DESIGN.md §3 C14")
chk("C15", "exploration", GEN + ": literal consistency predicate over the annotation grid + gcc acceptance of emitted C",
    "Skeletons {mixed expression, the same through a window alias of the buffer, precision across a call via tensor/window/scalar/aliased-window parameter, memory across a call at depth 1-2 for arguments and allocations, window-ness, direct access to a register memory} x every assignment over 4 precisions / 4 memories / window-ness, written in source and reached via set_precision / set_memory / set_window: inconsistent => compile must raise; consistent => compile succeeds and gcc -Wall -Werror=incompatible-pointer-types accepts .c/.h; plus gcc acceptance of the C of every seed and family program.",
    "gcc is the reference for 'valid C'", "DESIGN.md §3 C15")
chk("C18", "exploration", "fresh-interpreter executions of scripted sessions over a grid of hash seeds, symbol-counter offsets, prior histories, definition orders and salted Sym/proc hashing; byte comparison",
    "9 sessions (several window structs/configs/externs at two precisions/memories, both static C helpers, tiling+staging schedule, unroll_buffer+replace_all+extract_subproc, many free variables, x86 instructions, two procedures sharing callees, blur schedule with specialize) x 21 variants (each axis exhaustively around the default + pairwise corners; thorough: 83 variants = the same plus the full product of a 4 x 2 x 4 x 2 sub-grid): printed procedures, C and header must be byte-identical.",
    "the hash-seed axis is a finite sample; salted hashing owns the iteration order of Sym/proc keyed sets", "DESIGN.md §3 C18")

ALL = [f"C{i:02d}" for i in range(1, 20)]
PENDING_REASON = "check under construction in this session (design in DESIGN.md §3); not claimed until it runs silently on the unchanged tree"
def main():
    man = dict(version=1,
        setup_cmd="cd /verif && /venv/bin/python -m compileall -q vf >/dev/null; mkdir -p evidence replays; true",
        hooks=dict(guard="EXO_VERIF", enable="checks export EXO_VERIF=1; no source hooks are currently needed (instrumentation is done by wrapping from /verif)",
                   baseline_off_cmd=BASE["cmd"].replace("--junitxml=<file>", "--junitxml=/tmp/exo_baseline.junit.xml").replace("cd /repo &&", "cd /repo && env -u EXO_VERIF PATH=/venv/bin:$PATH"), source_commits=[], add_only=True),
        engines=[dict(name="vf", path="/verif/vf", serves_properties=sorted(CHECKS),
                      kind_free_text="hand-written explicit-state / bounded-exhaustive explorer in Python driving the real exo implementation, with independent reference models (LoopIR interpreter over a polynomial normal form, graph closure, brute-force integer evaluation, gcc+sanitizers)")],
        checks=[CHECKS[k] for k in sorted(CHECKS)],
        notes="See DESIGN.md. Every check enumerates a finite stated space completely; VERIF_SEED only permutes exploration order / symbol counters.",
        not_applicable=[dict(property_id=p, reason=PENDING_REASON) for p in ALL if p not in CHECKS])
    json.dump(man, open(os.path.join(HERE, "MANIFEST.json"), "w"), indent=1)
if __name__ == "__main__":
    main()
