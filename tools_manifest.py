#!/venv/bin/python
"""regenerate MANIFEST.json from the table below (keeps it valid at all times)"""
import json, os
HERE = os.path.dirname(os.path.abspath(__file__))
BASE = json.load(open('/root/.vp/BASELINE.json'))
CHECKS = {}
def chk(pid, cat, technique, text, note, ref, thorough=True):
    CHECKS[pid] = dict(property_id=pid, quick_cmd=f"./check {pid} quick",
        evidence_file=f"/verif/evidence/{pid}.json", replay_cmd_template="./check replay {path}",
        engine="vf", level_claimed=dict(category=cat, text=text, design_ref=ref), level_note=note, technique=technique)
    if thorough:
        CHECKS[pid]["thorough_cmd"] = f"./check {pid} thorough"

chk("C11", "model_checking",
    "explicit-state enumeration of all proc_eqv API histories up to a depth bound, executed on the real module, against a per-field graph-closure reference model",
    "Every history of {new, derive(p,K), assert(p,q,K), drop+gc} up to depth 5 (quick) / 6 (thorough) over <=4 procedures and key sets from {a,b,c} is executed on the real union-find module (no state merging, module state reset per history) and after every step all pairwise queries for all K are compared with an independent per-field connectivity model; a second layer drives real Procedures through the public API (scheduling ops with/without config effects, partial_eval/transpose/add_assertion) and additionally cross-checks every reported equivalence semantically with the reference interpreter.",
    "trusts the 40-line reference closure and the reference interpreter; bounded depth/procedure count", "DESIGN.md §3 C11")

EXPL = ("hand-written explicit-state explorer (BFS, canonical-form de-duplication) whose transitions call the real scheduling "
        "primitives; oracle evaluated on every transition")
chk("C01", "model_checking", EXPL + ": reference-interpreter equivalence on the whole control domain with symbolic data",
    "Breadth-first exploration from 49 seed procedures over the complete finite menu of (primitive, cursor/argument) events "
    "(all 57 exported primitives + 20 stdlib compositions; quick depth 1 = 16k transitions, thorough depth 2 with caps reported). "
    "For every transition that returns a procedure, source and result are executed by an independent LoopIR interpreter on every control "
    "valuation (sizes, index/bool args, window layouts, control-typed config state) with every data cell a distinct indeterminate, so equality of "
    "the polynomial normal forms is equality for ALL buffer contents up to real algebra; configuration fields are exempted only if the system reports them.",
    "trusts the reference interpreter (cross-validated against generated C in C02) and the polynomial normal form; small-scope: seeds, menus and sizes are bounded",
    "DESIGN.md §3 C01")
chk("C04", "model_checking", EXPL + ": structural validator + interpreter safety monitors + compile outcome",
    "Same exploration as C01; every returned procedure is checked by an independent scope/arity/type validator, executed with safety monitors "
    "(out-of-bounds on views, callee assertions/sizes/shapes, aliasing, negative loops, uninitialised values reaching outputs) on the whole control domain, "
    "and compiled: anything but success or a documented backend rejection is a violation.",
    "trusts validator and interpreter; T.Window type annotations are not part of the property and are not checked", "DESIGN.md §3 C04")
chk("C06", "model_checking", EXPL + ": node-identity forwarding oracle on every statement/gap cursor, edge and chain level",
    "For every transition p->q (including unsafe-flagged operations) every statement cursor and gap of p, and of every ancestor on the path from the seed, "
    "is forwarded to q; the result must be InvalidCursorError or resolve (fresh path walk) to the identical carried node object, never to a different carried statement, "
    "never dangling; implicit forwarding (passing the old cursor to an operation on q) must agree with explicit forwarding.",
    "identity-based oracle relies on rewrites sharing untouched node objects (true by construction of the cursor layer); rebuilt statements are only checked for non-dangling/ancestor-of-carried-descendants",
    "DESIGN.md §3 C06")
chk("C07", "model_checking", EXPL + ": deep fingerprints (content, Sym ids, node identities) of all live procedures before/after every event, successful or failing",
    "Every event of the full alphabet (including rejected and internally failing ones) is applied and the deep fingerprint and printed form of every live "
    "procedure (seed, ancestors, callees in scope) is compared before/after; queries (str, find_all) are included.",
    "fingerprints cover LoopIR content reachable from the procedure; module-level caches are covered by C18", "DESIGN.md §3 C07")

ALL = [f"C{i:02d}" for i in range(1, 20)]
PENDING_REASON = "check under construction in this session (design in DESIGN.md §3); not claimed until it runs silently on the unchanged tree"
def main():
    man = dict(version=1,
        setup_cmd="cd /verif && /venv/bin/python -m compileall -q vf >/dev/null; mkdir -p evidence replays; true",
        hooks=dict(guard="EXO_VERIF", enable="checks export EXO_VERIF=1; no source hooks are currently needed (instrumentation is done by wrapping from /verif)",
                   baseline_off_cmd="PATH=/venv/bin:$PATH " + BASE["cmd"].replace("--junitxml=<file>", "--junitxml=/tmp/exo_baseline.junit.xml").replace("cd /repo &&", "cd /repo && env -u EXO_VERIF"), source_commits=[], add_only=True),
        engines=[dict(name="vf", path="/verif/vf", serves_properties=sorted(CHECKS),
                      kind_free_text="hand-written explicit-state / bounded-exhaustive explorer in Python driving the real exo implementation, with independent reference models (LoopIR interpreter over a polynomial normal form, graph closure, brute-force integer evaluation, gcc+sanitizers)")],
        checks=[CHECKS[k] for k in sorted(CHECKS)],
        notes="See DESIGN.md. Every check enumerates a finite stated space completely; VERIF_SEED only permutes exploration order / symbol counters.",
        not_applicable=[dict(property_id=p, reason=PENDING_REASON) for p in ALL if p not in CHECKS])
    json.dump(man, open(os.path.join(HERE, "MANIFEST.json"), "w"), indent=1)
if __name__ == "__main__":
    main()
