#!/venv/bin/python
"""First-wave self-validation: hand-written property-breaking changes (one per
anchor mechanism), each applied in a scratch worktree of /repo's HEAD and run
against the quick tier of the checks expected to catch it.
usage: tools_selfmut.py [name ...]   (results appended to /tmp/selfmut_results.txt)"""
import os, subprocess, sys, json, time

S = "src/exo/rewrite/LoopIR_scheduling.py"
MUTS = [
 ("drop-reorder-check", S, "    Check_ReorderStmts(f_cursor.get_root(), f_cursor._node, s_cursor._node)\n", "    pass\n", ["C01"]),
 ("resize-dim-no-copy", S, "        new_idx = rd.idx.copy()\n        if isinstance(rd, LoopIR.Read):\n            new_idx[dim_idx] = mk_binop(rd.idx[dim_idx])", "        new_idx = rd.idx\n        if isinstance(rd, LoopIR.Read):\n            new_idx[dim_idx] = mk_binop(rd.idx[dim_idx])", ["C07"]),
 ("forward-insert-offbyone", "src/exo/core/internal_cursors.py", "        idx_update = lambda i: i + ins_len * (i >= ins_idx)", "        idx_update = lambda i: i + ins_len * (i > ins_idx)", ["C06"]),
 ("divide-loop-guard-le", S, '            cond = boolop("<", idx_sub, N, T.bool)', '            cond = boolop("<=", idx_sub, N, T.bool)', ["C01", "C04"]),
 ("divide-cut-tail-no-rename", S, "        cut_body = Alpha_Rename(loop.body).result()\n        env = {loop.iter: cut_tail_sub}", "        cut_body = loop.body\n        env = {loop.iter: cut_tail_sub}", ["C17", "C04"]),
 ("floor-div-inverted", "src/exo/backend/LoopIR_compiler.py", "int off = (num>=0)? 0 : quot-1;", "int off = (num>=0)? quot-1 : 0;", ["C02"]),
 ("range-floordiv", "src/exo/rewrite/range_analysis.py", "                new_hi = self.hi // c + 1\n", "                new_hi = self.hi // c\n", ["C13"]),
 ("proc-eqv-key", "src/exo/core/proc_eqv.py", "        if key not in config_set:\n            uf.union(proc1, proc2)", "        if key in config_set:\n            uf.union(proc1, proc2)", ["C11", "C10"]),
 ("pattern-match-kth", "src/exo/frontend/pattern_match.py", "        if i == 0:\n            self._results.append(result)", "        if i == 1:\n            self._results.append(result)", ["C16"]),
 ("bounds-lt-le", "src/exo/frontend/boundscheck.py", "                rhs = SMT.LT(e, self.expr_to_smt(hi))", "                rhs = SMT.LE(e, self.expr_to_smt(hi))", ["C03"]),
 ("cfg-mod-visible", "src/exo/rewrite/new_eff.py", "            cfg_mod_visible.add(pt.name)", "            pass", ["C10", "C11"]),
 ("free-before-use", "src/exo/backend/mem_analysis.py", "            used += [self.win_base[nm] for nm in used if nm in self.win_base]\n", "", ["C08"]),
 ("par-no-recurse", "src/exo/backend/parallel_analysis.py", "        return super().map_s(s)\n", "        return None\n", ["C09"]),
 ("printer-no-reserve", "src/exo/core/LoopIR_pprint.py", "        if candidate not in self.names:\n            self.names[candidate] = 1\n", "", ["C17"]),
 ("simplify-mod-lb", S, "            if self.env.check_expr_bounds(\n                0, IndexRangeEnvironment.leq, new_lhs, IndexRangeEnvironment.lt, m\n            ):", "            if self.env.check_expr_bound(new_lhs, IndexRangeEnvironment.lt, m):", ["C12"]),
 ("partial-eval-bool", S, "                    return LoopIR.Const(self.env[e.name], T.bool, e.srcinfo)", "                    return LoopIR.Const(True, T.bool, e.srcinfo)", ["C19"]),
 ("struct-order-unsorted", "src/exo/backend/LoopIR_compiler.py", "    struct_defns = [x.definition for x in sorted(struct_defns, key=lambda x: x.name)]", "    struct_defns = [x.definition for x in struct_defns]", ["C18"]),
 ("prec-mixed-silently-coerced", "src/exo/backend/prec_analysis.py", "            elif lhs.type != rhs.type:  # no T.R or T.err left, so...\n                self.err(", "            elif lhs.type != rhs.type and lhs.type == T.f64:  # no T.R or T.err left, so...\n                self.err(", ["C15"]),
 ("x86-fmadd-swap", "src/exo/platforms/x86.py", '@instr("{dst_data} = _mm256_fmadd_ps({src1_data}, {src2_data}, {dst_data});")', '@instr("{dst_data} = _mm256_fmsub_ps({src1_data}, {src2_data}, {dst_data});")', ["C14"]),

]


def sh(cmd, **kw):
    return subprocess.run(cmd, shell=True, capture_output=True, text=True, **kw)


def main():
    names = sys.argv[1:]
    for name, f, old, new, checks in MUTS:
        if names and name not in names:
            continue
        if old is None:
            print(f"{name}: no literal replacement defined (see DESIGN II.5 for the hand-applied variant)")
            continue
        wt = f"/tmp/selfmut_{name}"
        sh(f"cd /repo && git worktree remove --force {wt}; git worktree add -q --detach {wt} HEAD")
        p = os.path.join(wt, f)
        s = open(p).read()
        if old not in s:
            print(f"{name}: ANCHOR NOT FOUND in {f}")
            sh(f"cd /repo && git worktree remove --force {wt}")
            continue
        open(p, "w").write(s.replace(old, new, 1))
        for c in checks:
            t0 = time.time()
            r = sh(f"cd /verif && VF_REPO_SRC={wt}/src timeout 2400 ./check {c} quick")
            nv = r.stdout.count("\nVIOLATION") + (1 if r.stdout.startswith("VIOLATION") else 0)
            first = ""
            lines = r.stdout.splitlines()
            for i, l in enumerate(lines):
                if l.startswith("VIOLATION"):
                    first = lines[i + 1][:160] if i + 1 < len(lines) else ""
                    break
            line = f"{name}: {c} rc={r.returncode} violations={nv} t={time.time()-t0:.0f}s {first}"
            print(line, flush=True)
            open("/tmp/selfmut_results.txt", "a").write(line + "\n")
        sh(f"cd /repo && git worktree remove --force {wt}")


if __name__ == "__main__":
    main()
