#!/venv/bin/python
import sys, json, collections
prop = sys.argv[1]
keys = sys.argv[2:] or ["op", "kind"]
d = json.load(open(f"/verif/replays/{prop}-all.json"))
c = collections.Counter()
ex = {}
for v in d:
    k = tuple(str(v["sig"].get(x)) for x in keys)
    c[k] += 1
    ex.setdefault(k, v)
for k, n in sorted(c.items()):
    print(n, k)
if "--show" in sys.argv:
    pass
