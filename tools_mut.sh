#!/bin/bash
# usage: tools_mut.sh <patch.diff> <ID> [<ID>...]   -- apply patch to /repo, run quick checks, revert
set -u
P=$1; shift
cd /repo || exit 2
if ! git diff --quiet; then echo "REPO DIRTY - abort"; exit 2; fi
if ! git apply --check "$P" 2>/dev/null; then echo "PATCH DOES NOT APPLY: $P"; exit 3; fi
git apply "$P"
trap 'cd /repo && git checkout -- . ' EXIT
cd /verif
for id in "$@"; do
  mkdir -p /tmp/mutlog
  L=/tmp/mutlog/$(basename $(dirname $P))_$(basename $(dirname $(dirname $P)))_$id.log
  timeout ${MUT_TIMEOUT:-1800} ./check $id ${MUT_TIER:-quick} > $L 2>&1
  rc=$?
  nv=$(grep -c "^VIOLATION" $L)
  echo "$id rc=$rc violations=$nv $(grep -m1 -A1 '^VIOLATION' $L | tail -1 | cut -c1-220)"
done
