#!/bin/bash
# usage: tools_mut.sh <patch.diff> <ID> [<ID>...]
# applies the patch in a scratch worktree of /repo's HEAD (never in /repo), runs the quick checks against it, removes the worktree
set -u
P=$1; shift
TAG=$(echo "$P" | md5sum | cut -c1-8)
WT=/tmp/mutwt_$TAG
cd /repo && git worktree add -q --detach $WT HEAD || exit 2
trap 'cd /repo && git worktree remove --force '$WT' 2>/dev/null' EXIT
cd $WT
if ! git apply --check "$P" 2>/dev/null; then echo "PATCH DOES NOT APPLY: $P"; exit 3; fi
git apply "$P"
cd /verif
mkdir -p /tmp/mutlog
for id in "$@"; do
  L=/tmp/mutlog/${TAG}_$id.log
  VF_REPO_SRC=$WT/src timeout ${MUT_TIMEOUT:-2400} ./check $id ${MUT_TIER:-quick} > $L 2>&1
  rc=$?
  nv=$(grep -c "^VIOLATION" $L)
  echo "$id rc=$rc violations=$nv log=$L $(grep -m1 -A1 '^VIOLATION' $L | tail -1 | cut -c1-200)"
done
