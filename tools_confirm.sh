#!/bin/bash
# usage: tools_confirm.sh <PROP> <mdir> <seeded-id>
# confirms in a scratch worktree: demo passes without the patch, fails with it, full suite passes with it.
set -u
PROP=$1; M=$2; SID=$3
WT=/tmp/confirm_$SID
cd /repo && git worktree add -q --detach $WT HEAD || exit 2
cd $WT
export PATH=/venv/bin:$PATH PYTHONPATH=$WT/src
git apply --check $M/patch.diff || { echo "patch does not apply on current HEAD"; cd /repo; git worktree remove --force $WT; exit 3; }
timeout 600 /venv/bin/python $M/demo.py > /tmp/confirm_$SID.clean.log 2>&1; RC_CLEAN=$?
git apply $M/patch.diff
timeout 600 /venv/bin/python $M/demo.py > /tmp/confirm_$SID.mut.log 2>&1; RC_MUT=$?
timeout 9000 /venv/bin/python -m pytest -q -p no:cacheprovider --timeout=3600 -n ${NPROC:-8} tests/ > /tmp/confirm_$SID.suite.log 2>&1
SUITE=$(tail -1 /tmp/confirm_$SID.suite.log)
mkdir -p /verif/seeded/$SID
cp $M/patch.diff /verif/seeded/$SID/patch.diff
cp $M/demo.py /verif/seeded/$SID/demo.py
[ -f $M/notes.md ] && cp $M/notes.md /verif/seeded/$SID/notes.md
cat > /verif/seeded/$SID/confirm.txt <<EOT
property=$PROP
repo_head=$(git -C /repo rev-parse --short HEAD)
demo_rc_without_patch=$RC_CLEAN
demo_rc_with_patch=$RC_MUT
suite_with_patch=$SUITE
EOT
cat /verif/seeded/$SID/confirm.txt
cd /repo; git worktree remove --force $WT
