#!/usr/bin/env python3
"""Fills in the hand-written parts of seeded/<id>/meta.json (what the change needs in order to manifest,
which checks detect it and since when) and prints the table used in DESIGN.md II.6."""
import json, os, glob

NEEDS = {
 "C01-a-proc-eqv-stale-copy": "multi-step: a configuration-modifying derivation that is the FIRST in the process to mention the field, a second procedure calling the original, call_eqv to the derived callee, a later read of the field",
 "C01-b-reorder-loops-bounds": "a loop nest whose inner range is not contained in the outer range (e.g. outer seq(8,12) over inner seq(0,8), or a short outer loop) with a non-commuting body, then reorder_loops / lift_scope",
 "C02-a-range-rsub": "an index numerator of the form `literal - expr` whose true range is negative, under / or % (reverse ring-buffer walk in a loop with non-zero lower bound)",
 "C02-b-win-base-chain": "a malloc-backed local buffer, a window of a window of it, last uses only through the second-level window",
 "C03-a-chain-window-add-zero": "a window statement whose offset in some dimension is the literal 0, a second-level window with a non-zero offset in that dimension, and an access that is out of bounds only because the offset was dropped",
 "C03-b-alias-window-chain": "two levels of window statements and a call that passes the second-level window together with the root buffer or a first-level window",
 "C04-a-recompute-divisor": "divide_with_recompute whose outer extent is `e / c` with c different from the stride",
 "C04-b-lift-scope-inner-lo": "a directly nested loop pair where only the inner LOWER bound depends on the outer iterator (triangular nest), then reorder_loops / lift_scope",
 "C05-a-unify-cmp-ops": "callee and block guarded by comparisons of which exactly one is `==` (the other <, <=, >, >=)",
 "C06-a-forward-move-tuple-compare": "an if with an else branch, a move-based primitive whose destination gap is directly in the then-branch, and a cursor held in the else-branch",
 "C06-b-forward-move-attr": "an if with a non-empty else, a move into one branch, a cursor in the other branch at or after the destination index",
 "C07-a-unroll-buffer-idx-alias": "unroll_buffer on a buffer that is windowed with a constant point in the unrolled dimension (call argument / window statement); the ORIGINAL procedure is then corrupted, also when the call fails half-way",
 "C07-b-resize-dim-window-alias": "resize_dim (fold=False) on a buffer used through a window expression; the ORIGINAL procedure's window offsets are shifted in place, also when the call is rejected by its final bounds check",
 "C08-a-window-of-window-free": "an allocated buffer, a window of a window of it in the same scope, the buffer's last use only through the inner window",
 "C09-a-par-config-race": "a parallel loop whose body writes a configuration field with a loop-invariant value",
 "C10-a-globenv-loop-first-iter": "a configuration write inside a loop that runs exactly once, followed by a configuration rewrite whose soundness depends on the value after the loop",
 "C11-a-shared-key-uf": "one derivation step whose modulo-set contains two configuration fields never seen before in the process, then a step disturbing only one of them, then a query across it",
 "C12-a-div-split-cofactor": "division by a composite literal d of (c*i + j) with j in [0,c), c | d, c > d/c (e.g. 8 and 16)",
 "C12-b-cfold-trunc-div": "a negative numerator appearing DURING simplify (guard-fact substitution or a negated iterator) under a division by a positive literal",
 "C13-a-range-mod-straddle": "`e % c` where the constant range of e is narrower than c but straddles a multiple of c",
 "C14-a-storeu-pd-stride-assert": "mm256_storeu_pd applied to a non-unit-stride destination window (column of a 2-D buffer)",
 "C15-a-prec-stale-read": "a buffer with an explicit precision, a window alias of it, set_precision on the underlying buffer afterwards, a read through the alias mixed with another precision or passed across a call",
 "C16-a-children-skip-loop-lo": "an expression pattern whose match lies in a loop's LOWER bound (after cut_loop / shift_loop with an expression, or a hand-written seq(lo, hi))",
 "C16-b-expand-orelse-range": "a cursor into the else-branch of an if whose branches have different lengths, followed by expand",
 "C17-a-printer-loop-scope-map": "one Sym bound in two sibling loops (after fission) and, afterwards, a distinct same-named binder introduced in the second loop (inline of a callee with `for i`, add_loop with that name)",
 "C18-a-extern-sort-key": "one library using the same extern (relu, select, sigmoid) at two precisions; order then follows PYTHONHASHSEED",
 "C19-a-partial-eval-by-name": "a live variable with the same NAME as the evaluated argument (shadowing iterator, or an iterator brought in by inline)",
 "C19-b-rearrange-skip-same-name": "an access indexed by two different iterators that print the same (after inline + inline_window), then transpose / rearrange_dim",
}
# what had to be added to the machinery before the change was detected ("-" = detected as built)
STRENGTHENED = {
 "C03-a-chain-window-add-zero": "front-end family FE6 (window chains)",
 "C05-a-unify-cmp-ops": "seed call/guards",
 "C07-a-unroll-buffer-idx-alias": "seed alloc/unroll_buf_win",
 "C07-b-resize-dim-window-alias": "seed alloc/unroll_buf_win (added for C07-a)",
 "C08-a-window-of-window-free": "back-end family F10c (window chains over allocations)",
 "C02-b-win-base-chain": "back-end family F10c (window chains over allocations)",
 "C10-a-globenv-loop-first-iter": "generated configuration-dataflow family cfggen",
 "C14-a-storeu-pd-stride-assert": "strided-operand wrappers",
 "C15-a-prec-stale-read": "annotation skeleton S6 (window alias)",
 "C16-a-children-skip-loop-lo": "cut_expr / shift successors (patterns in loop lower bounds)",
 "C17-a-printer-loop-scope-map": "seed dup/fission_shared_iter + colliding-name menu events",
 "C18-a-extern-sort-key": "session with externs at two precisions",
 "C19-b-rearrange-skip-same-name": "seed dup/inline_same_iter",
 "C01-b-reorder-loops-bounds": "generated loop-nest family nestgen",
 "C04-b-lift-scope-inner-lo": "generated loop-nest family nestgen",
}

rows = []
for d in sorted(glob.glob("/verif/seeded/*/")):
    sid = os.path.basename(d.rstrip("/"))
    mp = os.path.join(d, "meta.json")
    if not os.path.exists(mp):
        continue
    m = json.load(open(mp))
    m["needs_to_manifest"] = NEEDS.get(sid, m.get("needs_to_manifest", "see notes.md"))
    m["machinery_added_to_detect"] = STRENGTHENED.get(sid, "-")
    det = {}
    for run in m.get("check_runs", []):
        for k, v in run.items():
            det[k] = v
    m["detected_by_final"] = sorted(k for k, v in det.items() if v.get("violations", 0) > 0 and v.get("rc") == 1)
    m["not_detected_by_final"] = sorted(k for k, v in det.items() if not (v.get("violations", 0) > 0 and v.get("rc") == 1))
    json.dump(m, open(mp, "w"), indent=1)
    rows.append((sid, m["property"], "yes" if m.get("confirmed") else "NO", ", ".join(m["detected_by_final"]) or "-", m["machinery_added_to_detect"]))
print("| seeded change | property | confirmed | detected by (quick) | added to detect it |")
print("|---|---|---|---|---|")
for r in rows:
    print("| " + " | ".join(r) + " |")
