#!/venv/bin/python
"""Source of truth for known_findings.json (edit here, run, commit).  The checks
only READ known_findings.json; nothing is added at run time."""
import json, os
HERE = os.path.dirname(os.path.abspath(__file__))
F = []
def kf(id, props, what, site, match, witness, status="open", commit=None):
    props = list(props)
    if "C01" in props and "C10" not in props:
        props.append("C10")  # C10 runs the C01 oracle on the configuration seeds
    for p in props:
        e = dict(id=f"{id}-{p}", property=p, status=status, what=what, site=site, match=match, witness=witness)
        if commit: e["commit"] = commit
        F.append(e)

RE = lambda s: {"re": s}
UNB = ["unbound-variable", "unbound"]

kf("KF-stage-mem-noload", ["C01", "C04"],
   "stage_mem emits no load when the block never reads the window, but stores the whole window back: cells the block does not write receive undefined values",
   "LoopIR_scheduling.DoStageMem (`if actualR and not WShadow`)",
   {"op": ["stage_mem", "std.auto_stage_mem"], "kind": ["value-mismatch", "uninit"], "cause": RE(r"^result-undefined,staged-copy-only-written(,alloc-extent-uses-iter)?$")},
   "seed loops/l2: stage_mem(body of j-loop, 'b[0:m, 0:n]', 'b_stg')")
kf("KF-sink-alloc-else", ["C01", "C04"],
   "sink_alloc into an if with an else branch gives the else copy of the allocation a fresh Sym while the else body keeps using the original one (unbound); the golden file test_sink_alloc_when_if_has_else.txt pins this output (`a_1[1] = 1.0`), so it cannot be repaired without editing the suite",
   "LoopIR_scheduling.DoSinkAlloc (`else_alloc = Alpha_Rename([alloc_stmt])`)",
   {"op": ["sink_alloc"], "kind": UNB, "cause": RE(r"^unbound-alloc,use:[\w-]+(,block-has-binder)?,scope-has-else$")},
   "seed guard/alloc_else: sink_alloc(`t: f32`)")
kf("KF-stage-mem-alias", ["C01", "C04"],
   "stage_mem redirects the accesses that name the staged buffer but not accesses through a window statement of it declared before the block, so writes through the alias go to the original while later reads come from the stale staging copy",
   "LoopIR_scheduling.DoStageMem (rewrites by buffer name only)",
   {"op": ["stage_mem", "std.auto_stage_mem"], "kind": ["value-mismatch", "uninit"], "cause": RE(r"aliased-access-in-block")},
   "seed alloc/unroll_buf_win: stage_mem(body[3:6], 't[0:2, 0:4]', 't_stg') with `w = t[1, 0:4]` declared before the block")
kf("KF-divide-recompute-not-idempotent", ["C01", "C04"],
   "divide_with_recompute re-executes overlapping iterations and only checks bounds: a body that reduces, calls, or reads a buffer it writes gives a different result when iterations are repeated",
   "LoopIR_scheduling.DoDivideWithRecompute (no idempotence / dependence check)",
   {"op": ["divide_with_recompute"], "kind": ["value-mismatch", "uninit", "config-mismatch"], "cause": RE(r"body-not-idempotent")},
   "seed depgen/xw_xrm: divide_with_recompute(i, 'n / 2 + 1', 1, ['ro','ri']) with n = 5")
kf("KF-add-loop-binder", ["C01", "C04"],
   "add_loop wraps an allocation / window statement in a new loop, ending its scope while later statements still use it",
   "LoopIR_scheduling.DoAddLoop (no check that the wrapped statement binds no name)",
   {"op": ["add_loop"], "kind": UNB, "cause": RE(r"^unbound-(alloc|window),use:[\w-]+,block-has-binder$")},
   "seed dep/scalar_between: add_loop(first statement `acc: f32`, 'r', 2)")
kf("KF-extract-subproc-binder", ["C01", "C04"],
   "extract_subproc moves an allocation / window statement into the sub-procedure although it is used after the block (or extracts a use of a window whose definition stays outside)",
   "LoopIR_scheduling.DoExtractSubproc",
   {"op": ["extract_subproc0"], "kind": UNB, "cause": RE(r"^unbound-(alloc|window),use:[\w-]+(,block-has-binder)?(,alloc-extent-uses-iter)?$")},
   "seed dep/scalar_between: extract_subproc(body[0:2], 'sub_p')")
kf("KF-specialize-window", ["C01", "C04"],
   "specialize copies a window statement into both branches of the new if, so the window name is unbound after the if",
   "LoopIR_scheduling.DoSpecialize (checks allocations only, not window statements)",
   {"op": ["specialize"], "kind": UNB, "cause": RE(r"^unbound-window,use:[\w-]+,block-has-binder$")},
   "seed win/basic: specialize(body[0:1], 'n > 2')")
kf("KF-reorder-window", ["C01", "C04"],
   "reorder_stmts moves a window statement below a statement that uses the window",
   "new_eff.Check_ReorderStmts (window statements have no effect, so they commute with everything)",
   {"op": ["reorder_stmts", "std.reorder_stmt_forward", "std.reorder_stmt_backwards"], "kind": UNB, "cause": RE(r"^(unbound-window,use:[\w-]+|unbound-alloc,use:in-window),block-has-binder$")},
   "seed win/basic: reorder_stmts(body[2:4])")
kf("KF-fission-window", ["C01", "C04"],
   "fission separates a window statement from the statements that use the window (only allocations are checked by the scope test), leaving the window name unbound in the second half",
   "LoopIR_scheduling.DoFissionAfterSimple / DoFissionLoops (alloc_check looks at Alloc only, not WindowStmt)",
   {"op": ["fission", "autofission", "std.fission_into_singles"], "kind": UNB, "cause": RE(r"^unbound-window,use:[\w-]+$")},
   "seed win/local after specialize(body[2:4], 'n <= 1'): fission(after `w = t[0:n, 1]` in the then-branch)")
kf("KF-reuse-buffer-scope", ["C01", "C04"],
   "reuse_buffer replaces a buffer by one declared in a different (already closed) scope",
   "LoopIR_scheduling.DoReuseBuffer",
   {"op": ["reuse_buffer"], "kind": UNB, "cause": RE(r"^unbound-alloc,use:[\w-]+,block-has-binder$")},
   "seed dup/cut: reuse_buffer(t in first loop, u in second loop)")
kf("KF-bind-expr-multi", ["C01", "C04"],
   "bind_expr with several cursors in different loops hoists the binding before the first loop, leaving the loop iterator unbound in the bound expression",
   "LoopIR_scheduling.DoBindExpr",
   {"op": ["bind_expr"], "kind": UNB, "cause": RE(r"^unbound-iter,use:in-read$")},
   "seed alloc/carried: bind_expr([x[i] in loop 1, x[i] in loop 2], 'grp')")
kf("KF-alloc-type-iter", ["C01", "C04"],
   "loop rewrites substitute the iterator in statements but not inside allocation types, leaving `t: f32[i+1]` with an unbound (or stale) iterator",
   "LoopIR_scheduling: DoDivideLoop / DoDivideWithRecompute / DoShiftLoop / DoLiftAlloc (autolift) via SubstArgs / Alpha_Rename on Alloc types",
   {"op": ["divide_loop", "std.divide_loop_recursive", "std.round_loop", "divide_with_recompute", "autolift_alloc", "std.tile_loops", "std.unroll_and_jam", "std.interleave_loop"], "kind": UNB, "cause": RE(r"^unbound-iter,use:alloc-type")},
   "seed alloc/dep_extent: divide_loop(i, 3, ['io','ii'], tail='cut')")
kf("KF-shift-loop-alloc-type", ["C01", "C04"],
   "shift_loop (via cut_loop_and_unroll) does not substitute the shifted iterator inside an allocation type, so the buffer is too small",
   "LoopIR_scheduling.DoShiftLoop",
   {"op": ["std.cut_loop_and_unroll", "shift_loop"], "kind": ["abort", "oob", "oob_base"], "cause": RE(r"alloc-extent-uses-iter")},
   "seed alloc/dep_extent: cut_loop_and_unroll(i, 1)")
kf("KF-divide-recompute-zero-outer", ["C01", "C04"],
   "divide_with_recompute accepts an outer extent that can be 0 (or a loop with non-zero lower bound), so the body is never executed / the new loop has hi < lo",
   "LoopIR_scheduling.DoDivideWithRecompute (only checks outer_hi*stride <= hi)",
   {"op": ["divide_with_recompute"], "kind": ["value-mismatch", "neg_loop", "uninit", "config-mismatch"],
    "cause": RE(r"outer-extent-zero-on-failing-input|loop-lo-nonzero")},
   "seed loops/zero_trip: divide_with_recompute(j-loop, 'n / 2', 1, ['ro','ri']) with n = 1")
kf("KF-inline-assign", ["C01", "C04"],
   "inline_assign deletes the assignment without checking that the target is a local buffer that is dead afterwards (argument targets, loop-carried values, windows, scalars passed to calls)",
   "LoopIR_scheduling.DoInlineAssign",
   {"op": ["inline_assign"], "kind": ["value-mismatch", "abort", "uninit", "call axpy: non-buffer expressi"], "cause": RE(r"target-(arg|alloc|window)")},
   "seed loops/l2: inline_assign(`b[j, i] = a[i, j] + 1.0`) -> `pass`")
kf("KF-mult-dim-mutates", ["C07"],
   "mult_dim edited the idx lists of the source procedure's nodes in place",
   "LoopIR_scheduling.DoMultiplyDim.remap_idx",
   {"op": ["mult_dim"], "kind": ["procedure-mutated"]},
   "seed alloc/dims: mult_dim(t, 0, 1) changes str() of the source procedure", status="fixed", commit="806bf649")
kf("KF-add-loop-guard-forward", ["C06"],
   "add_loop(guard=True) forwarded cursors through one new level instead of two",
   "LoopIR_scheduling.DoAddLoop",
   {"op": ["add_loop"], "kind": ["carried-not-found", "forward-exception", "dangling", "gap-moved", "block-moved"], "args": RE(r", true\]$")},
   "seed loops/l1: add_loop(loop, 'r', 'n', guard=True); forward(loop cursor) denotes the new if (a two-step wrap with composed forwarding repairs it, but tests/asplos25/gemmini_schedules.py relies on the wrong forwarding -- `p.forward(child).parent().body()[0]` expects the new `if` -- so the repair cannot be committed with the test suite unedited)")
kf("KF-block-forward-assert", ["C06"],
   "forwarding a BLOCK cursor through a move / delete that reorders or removes its end points fails an internal `assert` (new_start <= new_end, len(block) > 0, same parent) instead of raising InvalidCursorError; the failure is loud (no wrong or dangling cursor is produced) but is not the documented report",
   "internal_cursors.Block._forward_move (asserts after forwarding the end points), API_cursors.lift_cursor (assert len(impl) > 0)",
   {"kind": ["forward-exception"], "cursor_kind": "block", "exc": "AssertionError"},
   "seed guard/else2: reorder_stmts(else-branch [1:3]); forward(block else[1:3]) -> AssertionError")
kf("KF-forward-wrap-block-index", ["C06"],
   "a block cursor lying inside a wrapped range was forwarded with its own start index instead of the wrapper's",
   "internal_cursors.Block._forward_wrap.fwd_block (third case)",
   {"kind": ["forward-exception", "dangling"], "cursor_kind": "block", "exc": ["IndexError", "-"]},
   "seed dep/scalar_between: divide_loop(i, 2, tail='guard'); forward(block body[1:2] of the loop) -> IndexError",
   status="fixed", commit="0e43a6ce")
kf("KF-forward-move-block-attr", ["C06"],
   "a block cursor whose statements were moved into a different statement list kept the old list's attribute name",
   "internal_cursors.Block._forward_move (block case)",
   {"kind": ["forward-exception", "dangling"], "cursor_kind": "block", "exc": ["AttributeError"]},
   "seed guard/else2: lift_alloc(`t: f32` in the else-branch); forward(block else[2:3]) -> AttributeError 'For' object has no attribute 'orelse'",
   status="fixed", commit="2ba9c24a")
kf("KF-helper-order-hashseed", ["C18"],
   "the static C helpers (exo_floor_div, exo_floor_mod) were emitted in set-iteration order, so a library needing both compiled to different bytes under different PYTHONHASHSEED values (introduced together with the second helper by the floor-modulo fix 4b2bce40)",
   "backend/LoopIR_compiler.compile_to_strings (`for v in needed_helpers`)",
   {"kind": ["output-differs"], "session": "s_divmod_helpers", "axis": "hashseed"},
   "session s_divmod_helpers: C text differs between PYTHONHASHSEED=0 and 1",
   status="fixed", commit="93dce874")
kf("KF-add-loop-guard-forward-chain", ["C06"],
   "the same defect seen along a chain: a cursor created before add_loop(guard=True) and forwarded through it and a later rewrite still denotes the new `if` instead of the statement",
   "LoopIR_scheduling.DoAddLoop",
   {"level": "chain", "via_add_loop_guard": True},
   "seed dep/scalar_between: add_loop(`acc: f32`, 'r', 2, guard=True); simplify; forward(cursor of `acc: f32` in the seed)")
kf("KF-stage-mem-else-cond", ["C01", "C04"],
   "stage_mem used the un-negated condition for accesses in an else-branch when computing the staged window",
   "LoopIR_scheduling.DoStageMem / new_eff (else-branch context)",
   {"op": ["stage_mem"], "where": RE(r"^else-branch$"), "kind": ["value-mismatch", "oob", "uninit"]},
   "seed guard/else2: stage_mem of a block in the else-branch", status="fixed", commit="abe478cb")
kf("KF-par-nested-unchecked", ["C09"],
   "ParallelAnalysis.map_s never recursed, so par loops nested inside other statements were not checked for races",
   "backend/parallel_analysis.py", {"oracle": "par", "kind": ["race"], "position": ["in-seq", "in-if", "in-par", "seq-in-par"]},
   "a racy `par` loop inside a `seq` loop compiled", status="fixed", commit="83b04d9f")
kf("KF-window-write-unchecked", ["C03"],
   "writes and reductions through windows were not bounds-checked by the front end",
   "frontend/boundscheck.py", {"kind": ["oob_base"], "family": ["FE1"], "via": ["window", "wow"]},
   "w = x[0:n]; w[n] = 1.0 was accepted", status="fixed", commit="da763763")
kf("KF-static-scalar-decl", ["C15"],
   "DRAM_STATIC / DRAM_STACK scalars were declared as `float t[];`",
   "core/memory.py (StaticMemory / DRAM_STACK alloc of rank-0 buffers)", {"kind": ["invalid-c"], "err": RE(r"array size missing")},
   "t: f32 @ DRAM_STATIC", status="fixed", commit="4f525415")
kf("KF-c-mod-negative", ["C02"],
   "C `%` was emitted for operands that may be negative (Exo's % is the floor modulo)",
   "backend/LoopIR_compiler.py", {"kind": ["value-mismatch"], "uses_mod": True},
   "x[(k - 1) % 3] with k = -1", status="fixed", commit="4b2bce40")
kf("KF-free-before-window-use", ["C08"],
   "a buffer was freed after its last syntactic use although a window onto it was used later (use after free)",
   "backend/mem_analysis.py", {"kind": ["crash"], "san": RE(r"heap-use-after-free"), "family": ["f10w"]},
   "program f10w (window of a local allocation used after the last use of the base)", status="fixed", commit="6a075082")
kf("KF-fuse-lower-bounds", ["C01"],
   "fuse compared only the upper bounds of the two loops",
   "LoopIR_scheduling.DoFuseLoop", {"op": ["fuse"], "kind": ["value-mismatch", "oob"], "seed": "loops/fuse"},
   "fuse(for i in seq(0, n), for i in seq(1, n))", status="fixed", commit="91875a5f")
kf("KF-join-loops-prefix", ["C01"],
   "join_loops accepted loops whose bodies are [s1,s2] and [s1] (zip-based comparison)",
   "LoopIR.LoopIR_Compare.match_stmts",
   {"op": ["join_loops"], "kind": ["value-mismatch"], "cause": RE(r"bodies-differ-in-length")},
   "seed loops/join: join_loops(loop 3, loop 4)", status="fixed", commit="11e6c3d4")
kf("KF-remove-loop-zero-trip", ["C01"],
   "remove_loop / hoist_stmt test `hi > 0` instead of `hi > lo`, so the body of a never-executing loop `seq(n, n)` is made unconditional",
   "LoopIR_scheduling.DoRemoveLoop (Check_IsPositiveExpr(hi))",
   {"op": ["remove_loop", "std.hoist_stmt", "std.hoist_from_loop"], "kind": ["value-mismatch"], "cause": RE(r"loop-lo-eq-hi")},
   "seed loops/zero_trip: remove_loop(`for i in seq(n, n)`)", status="fixed", commit="1bd64eb7")
kf("KF-prefix-match", ["C01", "C04", "C05"],
   "replace unified only the first len(callee body) statements of the selected block but replaced the whole block, deleting the remaining statements",
   "LoopIR_unification.DoReplace",
   {"op": ["replace", "std.replace_all", "std.replace_all_stmts"], "kind": ["value-mismatch", "unbound-variable", "unbound"], "cause": RE(r"block-len-[23]")},
   "seed call/replace1: replace(body[3:5], vset0) keeps only the first loop", status="fixed", commit="a3b60771")
kf("KF-replace-no-recheck", ["C04", "C05"],
   "replace does not re-check the callee's assertions or size positivity at the new call site",
   "LoopIR_unification.DoReplace",
   {"op": ["replace", "std.replace_all", "std.replace_all_stmts"], "kind": ["call_pred", "call_size"]},
   "seed call/replace1: replace(`for j in seq(0, n-1): z[0,j] = 0.0`, vset0) gives vset0(n + -1, ...) with `assert m >= 2`")
kf("KF-extract-subproc-stale-assert", ["C04"],
   "extract_subproc(include_asserts=True) derives a precondition from a configuration fact that does not hold at the call site",
   "LoopIR_scheduling.DoExtractSubproc (get_control_predicate of config reads)",
   {"op": ["extract_subproc0"], "kind": ["call_pred"]},
   "seed config/rw: extract_subproc(`x[0] = CFG.f`, 'sub_p')")
kf("KF-fold-buffer", ["C01", "C04"],
   "resize_dim(fold=True) accepts a fold factor although elements written earlier are read after more than `fold` later writes",
   "LoopIR_scheduling.DoFoldBuffer / CheckFoldBuffer",
   {"op": ["resize_dim"], "kind": ["value-mismatch", "uninit"], "args": RE(r", true\]$")},
   "seed alloc/carried: resize_dim(u, 0, 2, 0, fold=True)")
kf("KF-mod-simplify-negative", ["C01", "C04", "C12"],
   "index normalisation drops `% c` when only the upper bound of the numerator is below c; a negative numerator then changes value ((i-3)%4 -> i-3 ... printed 1+i after +4)",
   "LoopIR_scheduling._DoNormalize.modulo_simplification",
   {"op": ["simplify", "std.cleanup", "std.cut_loop_and_unroll", "std.unroll_loops", "unroll_loop"], "kind": ["value-mismatch", "oob", "oob_base", "abort"], "seed": "divmod/neg"},
   "seed divmod/neg: simplify", status="fixed", commit="e7ff5ba9")
kf("KF-inline-window-of-window", ["C04"],
   "inline_window of a window that is itself windowed later leaves a window expression whose type annotation has the wrong rank; compilation then fails with an internal AssertionError",
   "LoopIR_scheduling.DoInlineWindow (chained window type not recomputed)",
   {"op": ["inline_window"], "oracle": "compile", "kind": ["AssertionError"]},
   "seed win/wow: inline_window(`w = x[1:5, 1:5]`) then c_code_str()")
kf("KF-range-join-none", ["C13"],
   "IndexRange.__or__ treated an unbounded side of one operand as 'no information': [0,3] | (-inf,2] = [0,3]",
   "rewrite/range_analysis.IndexRange.__or__ (used by stdlib bounds_inference)",
   {"oracle": "join", "kind": ["not-contained"]},
   "IndexRange(0,0,3) | IndexRange(0,None,2)", status="fixed", commit="ebae6b28")
kf("KF-find-read-arity", ["C16"],
   "a read pattern with index holes (`x[_]`, `x[i]`) also matches the bare buffer `x` passed as a call argument, because pattern and node index lists are zipped without comparing their lengths",
   "frontend/pattern_match.PatternMatch.match_e (Read case)",
   {"kind": ["find_all", "scoped-find", "find-k", "find-default"], "cause": "indexed-read-pattern-matches-bare-buffer-argument"},
   "seed config/callee: find_all('x[_]') returns the argument `x` of `useb(n, x)`")
kf("KF-find-hash-space", ["C16"],
   "find_loop accepts `name # n` (its own regex allows the space) but the match-number parser did not, so the first loop was returned",
   "frontend/pattern_match.match_pattern",
   {"kind": ["find_loop"], "space_form": True},
   "find_loop('i # 1') on a procedure with two `i` loops", status="fixed", commit="e437b08e")
kf("KF-print-bool-mem", ["C17"],
   "bool (and stride) typed arguments are printed with a memory annotation (`b: bool @ DRAM`) that the parser rejects, so the printed text of such a procedure cannot be parsed back",
   "core/LoopIR_pprint._print_fnarg (golden files contain the annotation, so the printer cannot be changed without editing tests)",
   {"kind": ["printed-text-rejected"], "err": RE(r"size types should not be annotated")},
   "any procedure with a `bool` argument, e.g. seed guard/ifs")
kf("KF-shared-nodes-else-branch", ["C01", "C10", "C04"],
   "specialize puts the same statement objects into both branches of the new if (Alpha_Rename returns unchanged nodes as they are); later analyses locate the focused statement by object identity, find it in the then-branch first and therefore analyse a statement of the else-branch under the un-negated condition (eliminate_dead_code keeps a dead body, add_loop accepts a zero-trip bound, ...)",
   "LoopIR_scheduling.DoSpecialize + new_eff.ContextExtraction (`s is self.stmts[0]`)",
   {"where": RE(r"else-branch,shared-nodes")},
   "seed config/loopbound: specialize(loop body, 'i == 0'); eliminate_dead_code(`if i == CFG.a` in the else branch)")
kf("KF-bind-expr-by-ref-arg", ["C01", "C04"],
   "bind_expr / bind_config on a scalar passed by reference to a call binds a copy and passes the copy, so the callee's write to the scalar is lost",
   "LoopIR_scheduling.DoBindExpr",
   {"op": ["bind_expr", "bind_config"], "kind": ["value-mismatch", "uninit"], "cause": RE(r"binds-call-argument")},
   "seed alloc/carried: extract_subproc(loop body) then bind_expr(argument `t` of the call)")
kf("KF-autofission-unchecked", ["C01", "C04"],
   "autofission (deprecated) performs no dependence check at all",
   "LoopIR_scheduling.DoFissionLoops",
   {"op": ["autofission"]},
   "seed dep/raw: autofission(after `x[i] = y[i] + 1.0`, 2)")
kf("KF-write-config-in-loop", ["C01", "C10"],
   "write_config at a gap inside a loop reports an empty set of modified fields although the final value of the field changes (a later iteration's write is taken to be overwritten by an earlier statement of the loop body)",
   "new_eff.Check_DeleteConfigWrite (post-effects inside loops)",
   {"op": ["write_config"], "kind": ["config-mismatch"], "cause": RE(r"inside-loop")},
   "seed config/callee: add_loop(setb(2), 'r', 2, guard=True); write_config(after the if, CFG, 'b', 1)")
kf("KF-simplify-shadowed-facts", ["C12"],
   "simplify looked facts up by printed name, so `if i == 0:` rewrote uses of an inner, shadowing `i` to 0",
   "LoopIR_scheduling.DoSimplify.add_fact / is_known_constant",
   {"ctx": "guard_then_shadow"},
   "for i: if i == 0: for i in seq(0,4): y[0, i] = 1.0  ->  y[0, 0] = 1.0", status="fixed", commit="c660962f")
kf("KF-print-generated-name-collision", ["C17"],
   "the printer did not reserve the names it generates: after unrolling, `t`, `t` and a literal `t_1` were printed as t, t_1, t_1",
   "core/LoopIR_pprint.PrintEnv.get_name",
   {"kind": ["same-name-overlapping-scopes"]},
   "seed dup/gen_names: unroll_loop(i)", status="fixed", commit="ee574bd0")
kf("KF-avx2-buffer-to-proc", ["C15"],
   "a vector-register buffer (@AVX2) passed to an ordinary procedure whose parameter is also @AVX2 compiles to C that passes a __m256 where a float* is expected",
   "backend/LoopIR_compiler.comp_fnarg / memory.AVX2.window (non-instr callee with register memory)",
   {"kind": ["invalid-c"], "why": ["S3-memory-across-call", "S3-memory-depth2", "S3-memory-via-set"], "err": RE(r"incompatible type for argument")},
   "callee(d: f32[8] @ AVX2): pass ; caller allocates x: f32[8] @ AVX2 and calls callee(x)")
kf("KF-window-arg-to-tensor-param", ["C15"],
   "a window-typed argument of the caller (after set_window(x, True)) passed whole to a callee that requires a dense tensor is accepted and compiles to C that passes the window struct where a pointer is expected",
   "backend/win_analysis.WindowAnalysis (only window *expressions* are checked against tensor parameters)",
   {"kind": ["inconsistent-accepted"], "why": ["S4-set_window"]},
   "g(x: f32[4]): callee(x) with callee(d: f32[4]); set_window(g, 'x', True)")
kf("KF-window-extent-unchecked", ["C03"],
   "accesses through a window are bounds-checked against the underlying buffer, not against the window's own declared extent (w = x[0:n-1]; w[n-1] is accepted)",
   "frontend/boundscheck.CheckBounds.translate_eff (window accesses are translated to the base buffer)",
   {"kind": ["oob"], "family": ["FE2", "FE1", "FE6"], "detail": RE(r"^(read|write) (w|v|r|d|half)\[")},
   "w = x[0:n - 1]; w[n - 1] = 1.0 with x: f32[n]")
for _ins, _what in [
    ("avx2_mask_storeu_ps", "mask is built with _mm256_set1_epi8((1<<N)-1): the sign bit of every 32-bit lane is 0 for N < 8, so nothing is stored"),
    ("mm512_mask_fmadd_ps", "uses the `mask` (not `mask3`) form: lanes >= N receive A instead of keeping C"),
    ("mm512_mask_set1_ps", "ignores its mask: all 16 lanes are set"),
    ("mm512_maskz_loadu_ps", "zeroes lanes >= N, the Exo body leaves them unchanged"),
    ("mm256_prefix_load_ps", "maskload zeroes lanes >= bound, the Exo body leaves them unchanged"),
    ("avx2_fmadd_memu_ps", "the fragment declares locals `dst` and `ones`; an operand buffer with that name is captured (`__m256 dst = _mm256_loadu_ps(&dst[...])`)"),
    ("mm256_fmadd_ps_broadcast", "passes the scalar rhs[0] where _mm256_fmadd_ps expects a __m256: the expansion does not compile"),
]:
    kf(f"KF-x86-{_ins}", ["C14"], f"x86 instruction {_ins}: {_what}", "platforms/x86.py", {"instr": _ins}, f"wrapper w_{_ins}_0 generated by vf/checks/c14.py")
kf("KF-print-negative-zero", ["C17"],
   "a unary minus applied to the literal 0 (left behind by index arithmetic such as `-(0) + k`) is printed `-0`; the parser folds it to the literal 0, which prints `0`, so the re-printed text differs",
   "core/LoopIR_pprint (USub of Const) / frontend/pyparser (folding of negative literals)",
   {"kind": ["reprint-differs"], "only_negative_zero": True},
   "seed expr/prec: cut_loop_and_unroll(i, 1) prints `x[-0 + k + n]`")
json.dump({"findings": F}, open(os.path.join(HERE, "known_findings.json"), "w"), indent=1)
print(len(F), "entries")
