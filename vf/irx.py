"""Generic access to LoopIR trees: paths, canonical serialisation, deep
fingerprints.  Only attribute access on the ADT nodes is used."""
from exo.core.LoopIR import LoopIR, T
from exo.core.prelude import Sym


# ---------------------------------------------------------------------------
# child enumeration (attr, index-or-None, node)


def stmt_children(s):
    """yield (attr, idx, child) for statement-list children"""
    if isinstance(s, LoopIR.If):
        for i, c in enumerate(s.body):
            yield ("body", i, c)
        for i, c in enumerate(s.orelse):
            yield ("orelse", i, c)
    elif isinstance(s, LoopIR.For):
        for i, c in enumerate(s.body):
            yield ("body", i, c)


def expr_children_attr(n):
    """yield (attr, idx, expr) for expression children of stmt or expr node"""
    if isinstance(n, (LoopIR.Assign, LoopIR.Reduce)):
        for i, e in enumerate(n.idx):
            yield ("idx", i, e)
        yield ("rhs", None, n.rhs)
    elif isinstance(n, LoopIR.WriteConfig):
        yield ("rhs", None, n.rhs)
    elif isinstance(n, LoopIR.If):
        yield ("cond", None, n.cond)
    elif isinstance(n, LoopIR.For):
        yield ("lo", None, n.lo)
        yield ("hi", None, n.hi)
    elif isinstance(n, LoopIR.Call):
        for i, e in enumerate(n.args):
            yield ("args", i, e)
    elif isinstance(n, LoopIR.WindowStmt):
        yield ("rhs", None, n.rhs)
    elif isinstance(n, LoopIR.Read):
        for i, e in enumerate(n.idx):
            yield ("idx", i, e)
    elif isinstance(n, LoopIR.USub):
        yield ("arg", None, n.arg)
    elif isinstance(n, LoopIR.BinOp):
        yield ("lhs", None, n.lhs)
        yield ("rhs", None, n.rhs)
    elif isinstance(n, LoopIR.Extern):
        for i, e in enumerate(n.args):
            yield ("args", i, e)


def all_stmts(proc):
    """pre-order list of (path, stmt) with path = list of (attr, idx)"""
    out = []

    def rec(path, s):
        out.append((path, s))
        for attr, i, c in stmt_children(s):
            rec(path + [(attr, i)], c)

    for i, s in enumerate(proc.body):
        rec([("body", i)], s)
    return out


def all_blocks(proc):
    """list of (parent_path, attr, list_of_stmts) for every statement list"""
    out = [([], "body", proc.body)]
    for path, s in all_stmts(proc):
        if isinstance(s, LoopIR.If):
            out.append((path, "body", s.body))
            if s.orelse:
                out.append((path, "orelse", s.orelse))
        elif isinstance(s, LoopIR.For):
            out.append((path, "body", s.body))
    return out


def all_exprs(proc, with_windows=False):
    """pre-order list of (path, expr) for expressions reachable by cursor paths"""
    out = []

    def rec(path, e):
        out.append((path, e))
        for attr, i, c in expr_children_attr(e):
            rec(path + [(attr, i)], c)

    for path, s in all_stmts(proc):
        for attr, i, e in expr_children_attr(s):
            rec(path + [(attr, i)], e)
    return out


# ---------------------------------------------------------------------------
# canonical (alpha) serialisation


class Canon:
    def __init__(self, names=True, types=True):
        self.syms = {}
        self.procs = {}
        self.out = []
        self.names = names
        self.types = types

    def sym(self, s):
        k = id(s)
        if k not in self.syms:
            self.syms[k] = f"{s.name() if self.names else ''}%{self._fresh()}"
        return self.syms[k]

    def _fresh(self):
        self.counter = getattr(self, "counter", -1) + 1
        return self.counter

    def bind(self, s):
        """a binding occurrence: fresh number even if the Sym object was bound before
        (rewrites may reuse one Sym for sibling binders)"""
        if self.names:
            return self.sym(s)
        self.syms[id(s)] = f"%{self._fresh()}"
        return self.syms[id(s)]

    def ty(self, t):
        if isinstance(t, T.Tensor):
            return f"T[{','.join(self.e(h) for h in t.hi)};{'w' if t.is_window else 'd'};{type(t.type).__name__}]"
        if isinstance(t, T.Window):
            return (f"W[{self.ty(t.src_type)};{self.ty(t.as_tensor)};{self.sym(t.src_buf)};"
                    f"{','.join(self.w(x) for x in t.idx)}]")
        return type(t).__name__

    def w(self, a):
        if isinstance(a, LoopIR.Point):
            return f"pt({self.e(a.pt)})"
        return f"iv({self.e(a.lo)},{self.e(a.hi)})"

    def e(self, e, types=True):
        t = f":{self.ty(e.type)}" if (types and self.types) else ""
        if not self.types and isinstance(e, LoopIR.USub) and isinstance(e.arg, LoopIR.Const):
            return f"C({float(-e.arg.val) + 0.0!r})"
        if not self.types and isinstance(e, LoopIR.Const) and isinstance(e.val, (int, float)) and not isinstance(e.val, bool):
            return f"C({float(e.val) + 0.0!r})"
        if isinstance(e, LoopIR.Read):
            return f"R({self.sym(e.name)};{','.join(self.e(i) for i in e.idx)}){t}"
        if isinstance(e, LoopIR.Const):
            return f"C({e.val!r}){t}"
        if isinstance(e, LoopIR.USub):
            return f"U({self.e(e.arg)}){t}"
        if isinstance(e, LoopIR.BinOp):
            return f"B({e.op};{self.e(e.lhs)};{self.e(e.rhs)}){t}"
        if isinstance(e, LoopIR.Extern):
            return f"X({e.f.name()};{','.join(self.e(a) for a in e.args)}){t}"
        if isinstance(e, LoopIR.WindowExpr):
            return f"Wn({self.sym(e.name)};{','.join(self.w(a) for a in e.idx)}){t}"
        if isinstance(e, LoopIR.StrideExpr):
            return f"S({self.sym(e.name)};{e.dim})"
        if isinstance(e, LoopIR.ReadConfig):
            return f"RC({e.config.name()}.{e.field})"
        return f"?{type(e).__name__}"

    def s(self, s):
        o = self.out
        if isinstance(s, (LoopIR.Assign, LoopIR.Reduce)):
            sty = self.ty(s.type) if self.types else ""
            o.append(f"{type(s).__name__}({self.sym(s.name)};{sty};{','.join(self.e(i) for i in s.idx)};{self.e(s.rhs)})")
        elif isinstance(s, LoopIR.WriteConfig):
            o.append(f"WC({s.config.name()}.{s.field};{self.e(s.rhs)})")
        elif isinstance(s, LoopIR.Pass):
            o.append("Pass")
        elif isinstance(s, LoopIR.If):
            o.append(f"If({self.e(s.cond)})" + "{")
            sv = dict(self.syms)
            for x in s.body:
                self.s(x)
            self.syms = dict(sv)
            o.append("}else{")
            for x in s.orelse:
                self.s(x)
            self.syms = sv
            o.append("}")
        elif isinstance(s, LoopIR.For):
            lo, hi = self.e(s.lo), self.e(s.hi)
            sv = dict(self.syms)
            o.append(f"For({self.bind(s.iter)};{lo};{hi};{type(s.loop_mode).__name__})" + "{")
            for x in s.body:
                self.s(x)
            self.syms = sv
            o.append("}")
        elif isinstance(s, LoopIR.Alloc):
            ty = self.ty(s.type)
            o.append(f"Alloc({self.bind(s.name)};{ty};{s.mem.name() if s.mem else None})")
        elif isinstance(s, LoopIR.Free):
            o.append(f"Free({self.sym(s.name)})")
        elif isinstance(s, LoopIR.Call):
            o.append(f"Call({self.proc_ref(s.f)};{','.join(self.e(a) for a in s.args)})")
        elif isinstance(s, LoopIR.WindowStmt):
            rhs = self.e(s.rhs)
            o.append(f"WS({self.bind(s.name)};{rhs})")
        else:
            o.append(f"?{type(s).__name__}")

    def proc_ref(self, f):
        k = id(f)
        if k not in self.procs:
            self.procs[k] = None  # reserve (recursion impossible in Exo, but be safe)
            sub = Canon(self.names, self.types)
            self.procs[k] = f"{f.name}<" + sub.proc(f) + ">"
        return self.procs[k]

    def proc(self, p):
        o = self.out
        args = []
        for a in p.args:
            nm = self.sym(a.name)
            args.append(f"{nm}:{self.ty(a.type)}@{a.mem.name() if a.mem else None}")
        o.append(f"proc {p.name}({','.join(args)})")
        for pr in p.preds:
            o.append(f"assert {self.e(pr)}")
        if p.instr is not None:
            o.append(f"instr {p.instr.c_instr!r} {p.instr.c_global!r}")
        for s in p.body:
            self.s(s)
        return "\n".join(o)


def canon(proc, names=True, types=True):
    """alpha-canonical text of a LoopIR.proc (names kept, Syms numbered by
    first occurrence, srcinfo dropped, callees inlined)"""
    return Canon(names, types).proc(proc)


# ---------------------------------------------------------------------------
# deep fingerprint INCLUDING Sym identities and list identities (purity)


def fingerprint(proc):
    """structure that changes whenever any node content, Sym id, or list
    content reachable from proc changes."""
    out = []

    def sym(s):
        return (s.name(), s._id)

    def ty(t):
        if isinstance(t, T.Tensor):
            return ("T", tuple(ex(h) for h in t.hi), t.is_window, type(t.type).__name__)
        if isinstance(t, T.Window):
            return ("W", ty(t.src_type), ty(t.as_tensor), sym(t.src_buf), tuple(wa(x) for x in t.idx))
        return type(t).__name__

    def wa(a):
        if isinstance(a, LoopIR.Point):
            return ("pt", ex(a.pt))
        return ("iv", ex(a.lo), ex(a.hi))

    def ex(e):
        if isinstance(e, LoopIR.Read):
            return ("R", id(e), sym(e.name), tuple(ex(i) for i in e.idx), ty(e.type))
        if isinstance(e, LoopIR.Const):
            return ("C", id(e), repr(e.val), ty(e.type))
        if isinstance(e, LoopIR.USub):
            return ("U", id(e), ex(e.arg))
        if isinstance(e, LoopIR.BinOp):
            return ("B", id(e), str(e.op), ex(e.lhs), ex(e.rhs), ty(e.type))
        if isinstance(e, LoopIR.Extern):
            return ("X", id(e), e.f.name(), tuple(ex(a) for a in e.args))
        if isinstance(e, LoopIR.WindowExpr):
            return ("Wn", id(e), sym(e.name), tuple(wa(a) for a in e.idx), ty(e.type))
        if isinstance(e, LoopIR.StrideExpr):
            return ("S", id(e), sym(e.name), e.dim)
        if isinstance(e, LoopIR.ReadConfig):
            return ("RC", id(e), e.config.name(), e.field)
        return ("?", id(e))

    def st(s):
        if isinstance(s, (LoopIR.Assign, LoopIR.Reduce)):
            return (type(s).__name__, id(s), sym(s.name), ty(s.type), tuple(ex(i) for i in s.idx), ex(s.rhs))
        if isinstance(s, LoopIR.WriteConfig):
            return ("WC", id(s), s.config.name(), s.field, ex(s.rhs))
        if isinstance(s, LoopIR.Pass):
            return ("Pass", id(s))
        if isinstance(s, LoopIR.If):
            return ("If", id(s), ex(s.cond), tuple(st(x) for x in s.body), tuple(st(x) for x in s.orelse))
        if isinstance(s, LoopIR.For):
            return ("For", id(s), sym(s.iter), ex(s.lo), ex(s.hi), type(s.loop_mode).__name__, tuple(st(x) for x in s.body))
        if isinstance(s, LoopIR.Alloc):
            return ("Alloc", id(s), sym(s.name), ty(s.type), s.mem.name() if s.mem else None)
        if isinstance(s, LoopIR.Free):
            return ("Free", id(s), sym(s.name))
        if isinstance(s, LoopIR.Call):
            return ("Call", id(s), id(s.f), pr(s.f), tuple(ex(a) for a in s.args))
        if isinstance(s, LoopIR.WindowStmt):
            return ("WS", id(s), sym(s.name), ex(s.rhs))
        return ("?", id(s))

    seen = {}

    def pr(p):
        if id(p) in seen:
            return ("procref", id(p))
        seen[id(p)] = True
        return ("proc", str(p.name),
                tuple((sym(a.name), ty(a.type), a.mem.name() if a.mem else None) for a in p.args),
                tuple(ex(x) for x in p.preds),
                tuple(st(s) for s in p.body),
                (p.instr.c_instr, p.instr.c_global) if p.instr is not None else None)

    return pr(proc)


def stmt_ids(proc):
    """dict id(stmt) -> list of paths (tuples) where that node object occurs"""
    d = {}
    for path, s in all_stmts(proc):
        d.setdefault(id(s), []).append(tuple(path))
    return d
