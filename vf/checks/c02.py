"""C02 -- generated C computes what the procedure means (translation validation).

For every program (all seeds + the back-end program families) the real compiler
output is built with gcc (ASan/UBSan on) together with a generated driver and run
on the whole control domain x window layouts with concrete data; the dumped
backing stores, scalars and context struct are compared with the reference
interpreter run on the same LoopIR and inputs."""
import json
import os
from fractions import Fraction

from vf import cback, inputs, interp, par, seeds
from vf.gen import programs
from vf.poly import Poly


def program_list(tier):
    out = []
    for s in seeds.SEEDS:
        out.append(("seed", s.name))
    for p in programs.backend_programs(tier):
        out.append(("gen", p.name))
    only = os.environ.get("VF_ONLY")  # development aid (regex on program names); registered commands never set it
    if only:
        import re

        out = [x for x in out if re.search(only, x[1])]
    return out


_GEN = {}


def get_program(kind, name, tier):
    if kind == "seed":
        return seeds.by_name(name).build()
    if not _GEN:
        for t in ("quick", "thorough"):
            for p in programs.backend_programs(t):
                _GEN.setdefault(p.name + "|" + t, p)
    return _GEN[name + "|" + tier].build()


def valuations_for(ir, tier):
    dk = dict(sizes=(1, 2, 3) if tier == "quick" else (1, 2, 3, 4, 5), idxs=(-1, 0, 1, 2), cfg_vals=(0, 1, 2),
              layouts=interp.LAYOUTS, max_vals=40 if tier == "quick" else 200)
    vals = [v for v in inputs.control_domain(ir, **dk)]
    return vals


def run_one(job):
    from exo.API import compile_procs_to_strings

    kind, name, tier, mode = job
    out = {"name": name, "status": None, "vals": 0, "bad": [], "skipped_unsafe": 0, "mode": mode}
    try:
        p, ns = get_program(kind, name, tier)
    except Exception as ex:
        out["status"] = "rejected-by-front-end"
        return out
    ir = p._loopir_proc
    try:
        c, h = compile_procs_to_strings([p], "prog.h")
    except Exception as ex:
        out["status"] = f"compile-refused:{type(ex).__name__}"
        return out
    vals = valuations_for(ir, tier)
    exp = []
    keep = []
    for v in vals:
        try:
            r = cback.expected_runs(ir, [v])[0]
        except ValueError:
            continue
        if r.abort or any(k in inputs.SAFETY_KINDS for k, _ in r.mon):
            out["skipped_unsafe"] += 1  # the procedure itself is unsafe on this input: C03's business
            continue
        keep.append(v)
        exp.append(r)
    if not keep:
        out["status"] = "no-valid-input"
        return out
    try:
        driver, metas = cback.make_driver(ir, h, keep, "prog.h")
    except Exception as ex:
        out["status"] = f"driver-gen-failed:{type(ex).__name__}:{ex}"
        return out
    extra = {}
    if "custom_malloc" in c:
        import os, exo

        d = os.path.join(os.path.dirname(exo.__file__), "libs")
        extra["custom_malloc.h"] = open(os.path.join(d, "custom_malloc.h")).read()
        # the library memory's allocator is part of the program under test
        c = c + "\n/* ---- exo/libs/custom_malloc.c ---- */\n" + open(os.path.join(d, "custom_malloc.c")).read()
    r = cback.build_and_run(c, h, driver, extra_files=extra)
    if not r["compile_ok"] and r.get("stage") == "timeout":
        out["status"] = "harness-timeout"
        return out
    if not r["compile_ok"]:
        out["status"] = "c-compile-failed"
        out["bad"].append({"kind": "c-compile-failed", "detail": r["compile_err"][-1500:], "stage": r.get("stage"), "c": c[-3000:]})
        return out
    runs = cback.parse_dump(r["stdout"])
    out["status"] = "ran"
    san = cback.sanitizer_kind(r["stderr"]) if r["rc"] != 0 else None
    for k, (v, e) in enumerate(zip(keep, exp)):
        out["vals"] += 1
        if k >= len(runs) or not runs[k]["complete"]:
            out["bad"].append({"kind": "crash", "san": san, "detail": r["stderr"][-1500:], "input": inputs_json(v), "c": c[-3000:]})
            break
        got = runs[k]
        if mode == "c08":
            if got["live"] != 0 or got.get("bad_free"):
                out["bad"].append({"kind": "alloc-imbalance", "live_delta": got["live"], "bad_free": got.get("bad_free"), "input": inputs_json(v), "c": c[-3000:]})
                break
            continue
        bad = None
        for nm, cells in e.outs.items():
            gc = got["bufs"].get(nm)
            if gc is None or len(gc) != len(cells):
                bad = {"kind": "dump-shape", "buf": nm}
                break
            for i, (pc, g) in enumerate(zip(cells, gc)):
                if pc is None or not pc.is_const():
                    continue  # undefined / symbolic (uninterpreted extern): not comparable
                if Fraction(g) != pc.const_val():
                    bad = {"kind": "value-mismatch", "buf": nm, "cell": i, "c_value": g, "expected": str(pc.const_val())}
                    break
            if bad:
                break
        if not bad:
            for (cn, fn), val in e.cfg.items():
                g = got["cfg"].get(f"{cn}.{fn}")
                if g is None:
                    continue
                ev = val.const_val() if isinstance(val, Poly) and val.is_const() else (val if not isinstance(val, Poly) else None)
                if ev is None:
                    continue
                if Fraction(g) != Fraction(int(ev) if isinstance(ev, bool) else ev):
                    bad = {"kind": "config-mismatch", "field": f"{cn}.{fn}", "c_value": g, "expected": str(ev)}
                    break
        if bad:
            bad["input"] = inputs_json(v)
            bad["c"] = c[-3000:]
            bad["proc"] = str(p)
            out["bad"].append(bad)
            break
    return out


def wanted(mode, b):
    k = b["kind"]
    if mode == "c02":
        return k in ("value-mismatch", "config-mismatch", "dump-shape")
    if mode == "c08":
        if k == "c-compile-failed":
            return "discarded-qualifiers" in b.get("detail", "") or "read-only" in b.get("detail", "")
        return k in ("crash", "alloc-imbalance")
    if mode == "c15":
        return k == "c-compile-failed"
    return True


def inputs_json(v):
    ctrl, lay, cfg0 = v
    return {"ctrl": ctrl, "layouts": lay, "cfg0": {f"{k[0]}.{k[1]}": x for k, x in cfg0.items()}}


def run(rep, mode="c02"):
    tier = rep.tier
    progs = program_list(tier)
    jobs = [(k, n, tier, mode) for k, n in progs]
    if rep.seed:
        import random

        random.Random(rep.seed).shuffle(jobs)
    stat = {}
    delegated = {}
    nvals = nran = 0
    for out in par.pmap(run_one, jobs):
        stat[out["status"].split(":")[0]] = stat.get(out["status"].split(":")[0], 0) + 1
        nvals += out["vals"]
        if out["status"] == "ran":
            nran += 1
            if nran in (1, 40):
                rep.sample({"program": out["name"], "valuations": out["vals"]})
        for b in out["bad"]:
            if not wanted(mode, b):
                delegated[b["kind"]] = delegated.get(b["kind"], 0) + 1
                continue
            fam = out["name"].split("_")[0]
            sig = {"oracle": "c-vs-interp" if mode == "c02" else "c-runtime", "kind": b["kind"], "program": out["name"], "family": fam,
                   "san": b.get("san"), "uses_mod": " % " in (b.get("c") or "")}
            rep.violation(sig, dict(b, program=out["name"]))
    if mode == "c02":
        rep.set("programs", nran)
        rep.set("disagreements_checked", nvals)
    rep.set("evaluations", nvals)
    rep.set("distinct_nontrivial", nran)
    rep.set("program_status", stat)
    rep.set("observations_left_to_other_properties", delegated)
    rep.set("exhaustive", True)
    rep.set("rule", "programs = all seed procedures + full products of the back-end families (direct accesses, windows, window-of-window, "
                    "calls with window/dense/scalar-by-reference/size/index/bool parameters, div/mod lowering, allocation scopes x memories, "
                    "name clashes, precision pairs, config struct); each runs on its whole control domain x 4 window layouts")


def replay(art):
    print(json.dumps({k: v for k, v in art.items() if k != "c"}, indent=1, default=str)[:3000])
    print(art.get("c", ""))
    return 1
