"""C08 -- generated C is free of undefined behaviour and leaks.

Same programs, compiler output and driver as C02, built with ASan + UBSan
(-fno-sanitize-recover) and -Werror=discarded-qualifiers; the allocation counter
(malloc/free remapped in the generated translation unit) must balance per call."""
from vf.checks import c02


def run(rep):
    c02.run(rep, mode="c08")
    rep.cov["rule"] = rep.cov["rule"] + "; oracle: AddressSanitizer/UBSan reports, allocation balance per call, const-qualifier errors"


replay = c02.replay
