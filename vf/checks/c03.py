"""C03 -- accepted procedures are memory-safe and call-safe.

Bounded-exhaustive families of Exo source texts (safe and unsafe variants
alike) go through the real @proc; every ACCEPTED program is executed by the
reference interpreter with all safety monitors on its whole control domain and
all window layouts.  A monitor record is a violation (the front end should have
rejected the program)."""
import json

from vf import inputs, interp, par, seeds
from vf.gen import programs

_P = {}


def get(name, tier):
    if not _P:
        for t in ("quick", "thorough"):
            for p in programs.frontend_programs(t) + programs.backend_programs(t):
                _P[p.name + "|" + t] = p
    return _P[name + "|" + tier]


def run_chunk(job):
    names, tier = job
    out = {"n": 0, "accepted": 0, "rejected": 0, "bad": [], "vals": 0, "rejected_but_safe": 0, "families": {}}
    dk = dict(sizes=(1, 2, 3, 4) if tier == "quick" else (1, 2, 3, 4, 5, 6), idxs=(-2, -1, 0, 1, 2), cfg_vals=(0, 1, 2),
              layouts=interp.LAYOUTS, max_vals=200)
    for name in names:
        prog = get(name, tier)
        out["n"] += 1
        try:
            p, ns = prog.build()
        except Exception as ex:
            out["rejected"] += 1
            continue
        out["accepted"] += 1
        fam = out["families"].setdefault(prog.family, 0)
        out["families"][prog.family] = fam + 1
        ir = p._loopir_proc
        for ctrl, lay, cfg0 in inputs.control_domain(ir, **dk):
            try:
                r = interp.run_proc(ir, ctrl, lay, cfg0)
            except ValueError:
                continue
            out["vals"] += 1
            kinds = [(k, d) for k, d in r.mon if k in inputs.SAFETY_KINDS]
            if r.abort and not kinds:
                kinds = [("abort", r.abort)]
            if kinds:
                out["bad"].append({"program": name, "family": prog.family, "tags": list(map(str, prog.tags)), "src": prog.src,
                                   "monitor": kinds[0][0], "detail": kinds[0][1], "input": {"ctrl": ctrl, "layouts": lay}})
                break
    return out


def run(rep):
    tier = rep.tier
    names = [p.name for p in programs.frontend_programs(tier)] + [p.name for p in programs.backend_programs(tier)]
    if rep.seed:
        import random

        random.Random(rep.seed).shuffle(names)
    tot = acc = rej = vals = 0
    fams = {}
    for out in par.pmap(run_chunk, [(c, tier) for c in par.chunks(names, 64)]):
        tot += out["n"]
        acc += out["accepted"]
        rej += out["rejected"]
        vals += out["vals"]
        for f, n in out["families"].items():
            fams[f] = fams.get(f, 0) + n
        for b in out["bad"]:
            via = b["tags"][4] if b["family"] == "FE1" and len(b["tags"]) > 4 else "-"
            rep.violation({"oracle": "safety", "kind": b["monitor"], "family": b["family"], "via": via, "program": b["program"], "detail": b["detail"]}, b)
    rep.set("evaluations", tot)
    rep.set("distinct_nontrivial", acc)
    rep.set("rejected_by_front_end", rej)
    rep.set("valuations_executed", vals)
    rep.set("accepted_per_family", fams)
    rep.set("exhaustive", True)
    rep.set("rule", "full products of the front-end families: access offset x loop bounds x guard x {direct, window, window-of-window, callee "
                    "window/tensor parameter} x {write, read, reduce}; window extents/points x access; callee size expressions x assertions; shape, "
                    "stride-assertion and aliasing variants; loop-bound pairs; plus the back-end families.  non-trivial = accepted by @proc")
    rep.sample({"program": programs.frontend_programs(tier)[3].src})


def replay(art):
    print(art.get("src"))
    print(json.dumps({k: v for k, v in art.items() if k != "src"}, indent=1, default=str))
    return 1
