"""C17 -- the printed procedure denotes the procedure.

Every distinct state reached by the explorer is printed, the text is fed back
through the real @proc (memories, configs and callees bound by name), and the
re-parsed procedure must be accepted, alpha-isomorphic to the original, print
to the identical text and be interpreter-equivalent."""
import json
import re

from exo.core.LoopIR import LoopIR, T

from vf import explore, menus, oracles, seeds, irx, inputs, interp, plans
from vf.oracles import BaseOracle
from vf.checks.c01 import fill_evidence, seed_list, replay  # noqa


def callees_of(ir, acc=None):
    acc = {} if acc is None else acc
    for _, s in irx.all_stmts(ir):
        if isinstance(s, LoopIR.Call):
            if id(s.f) not in acc:
                acc[id(s.f)] = s.f
                callees_of(s.f, acc)
    return acc


def reparse(p, ns, strip_ctrl_mem=False):
    """-> (Procedure or None, reason)"""
    from exo.API import Procedure
    from vf.exoutil import exec_src

    ir = p._loopir_proc
    if ir.instr is not None:
        return None, "skip:instr"
    env = dict(ns)
    names = {}
    for f in callees_of(ir).values():
        nm = str(f.name)
        if nm in names and names[nm] is not f:
            return None, "skip:two-callees-one-name"
        names[nm] = f
        # bind by name to the very callee object
        found = None
        for v in ns.values():
            if isinstance(v, Procedure) and v._loopir_proc is f:
                found = v
        env[nm] = found if found is not None else Procedure(f)
    txt = "@proc\n" + str(p)
    if strip_ctrl_mem:
        txt = re.sub(r"(:\s*(?:bool|stride|index|size))\s*@\s*\w+", r"\1", txt)
    # printing fidelity is about parse + typecheck; the front end's safety analyses (bounds,
    # aliasing) judge the program, not its text, and are the business of C03/C04
    import exo.API as API

    saved = API.CheckBounds, API.Check_Aliasing
    API.CheckBounds = lambda *_a, **_k: None
    API.Check_Aliasing = lambda *_a, **_k: None
    try:
        exec_src(txt, env, tag="c17")
    except Exception as ex:
        return None, f"rejected:{type(ex).__name__}: {str(ex)[:300]}"
    finally:
        API.CheckBounds, API.Check_Aliasing = saved
    return env[str(ir.name)], "ok"


def name_collisions(ir):
    """pairs (i, j) of binder indices (traversal order) such that binder j declares a
    name that binder i has already declared in an enclosing-or-same scope that is still open"""
    out = []
    binders = []

    def bind(env, sym):
        idx = len(binders)
        binders.append(sym)
        nm = str(sym)
        if nm in env:
            out.append((env[nm], idx))
        env[nm] = idx

    def block(stmts, env):
        env = dict(env)
        for s in stmts:
            if isinstance(s, LoopIR.For):
                e2 = dict(env)
                bind(e2, s.iter)
                block(s.body, e2)
            elif isinstance(s, LoopIR.If):
                block(s.body, env)
                block(s.orelse, env)
            elif isinstance(s, LoopIR.Alloc):
                bind(env, s.name)
            elif isinstance(s, LoopIR.WindowStmt):
                bind(env, s.name)

    env = {}
    for a in ir.args:
        bind(env, a.name)
    block(ir.body, env)
    return out, binders


class Oracle(BaseOracle):
    def __init__(self, st, unit, res):
        super().__init__(st, unit, res)
        self.seen = set()
        if not st.hist and unit.get("part", 0) == 0:
            # the seed itself is a state too
            try:
                self.check_proc(st.proc, None)
            except Exception as ex:
                res["errors"].append(f"seed check crashed: {type(ex).__name__}: {ex}")

    def after(self, ev, q, exc, outcome):
        if q is None:
            return
        h = irx.canon(q._loopir_proc)
        if h in self.seen:
            return
        self.seen.add(h)
        self.check_proc(q, ev)

    def check_proc(self, q, ev):
        if ev is not None:
            # successors of a state that is itself ill-formed (reached through a recorded C04 finding)
            # carry doubly / wrongly bound names; their text cannot be judged
            if not hasattr(self, "_src_ok"):
                from vf import wf as _wf

                self._src_ok = not _wf.validate(self.st.proc._loopir_proc)
            if not self._src_ok:
                self.stat("skip:source-illformed")
                return
        self.stat("procedures_printed")
        base = {"op": ev["op"] if ev else "seed", "seed": self.st.seed.name}
        txt = str(q)
        r, why = reparse(q, self.st.ns)
        if r is None and "should not be annotated with" in why:
            # report (known finding) and carry on with the annotation stripped so the rest is still checked
            self.violation(dict(base, oracle="reparse", kind="printed-text-rejected", err=_norm_err(why)),
                           {"event": ev, "printed": txt, "error": why})
            r, why = reparse(q, self.st.ns, strip_ctrl_mem=True)
        if r is None:
            if why.startswith("skip"):
                self.stat(why)
                return
            # the original itself might be ill-formed (a C04 matter): only count when q is well-formed
            from vf import wf

            if wf.validate(q._loopir_proc):
                self.stat("skip:source-illformed")
                return
            if False:
                pass
            elif "during typechecking" in why and "does not depend on loop iterations" in why:
                # a front-end-only typing rule about configuration writes in loops; scheduling may legitimately produce this
                self.stat("skip:front-end-typing-rule-rejects-scheduled-program")
                return
            self.violation(dict(base, oracle="reparse", kind="printed-text-rejected", err=_norm_err(why)),
                           {"event": ev, "printed": txt, "error": why})
            return
        self.stat("reparsed")
        a = irx.canon(q._loopir_proc, names=False, types=False)
        b = irx.canon(r._loopir_proc, names=False, types=False)
        if a != b:
            from vf import wf

            if wf.validate(q._loopir_proc):
                self.stat("skip:source-illformed")
                return
            self.violation(dict(base, oracle="reparse", kind="not-alpha-isomorphic"),
                           {"event": ev, "printed": txt, "orig_canon": a[:1500], "reparsed_canon": b[:1500], "diff": _first_diff(a, b)})
            return
        # distinct variables shown with the same name in overlapping scopes?
        coll, rb = name_collisions(r._loopir_proc)
        if coll:
            _, qb = name_collisions(q._loopir_proc)
            for i, j in coll:
                if i < len(qb) and j < len(qb) and qb[i] is not qb[j]:
                    self.violation(dict(base, oracle="print", kind="same-name-overlapping-scopes"),
                                   {"event": ev, "printed": txt, "name": str(rb[j]), "orig_syms": [repr(qb[i]), repr(qb[j])]})
                    return
        t2 = str(r)
        if t2 != txt:
            nz = re.sub(r"(?<![\w.])-0(?![\w.])", "0", txt) == re.sub(r"(?<![\w.])-0(?![\w.])", "0", t2)
            self.violation(dict(base, oracle="reparse", kind="reprint-differs", only_negative_zero=nz), {"event": ev, "printed": txt, "reprinted": t2})
            return
        # interpreter equivalence (cheap: small domain)
        dk = dict(sizes=(1, 2), idxs=(0, 1), cfg_vals=(0, 1), max_vals=8)
        for val, rp in inputs.run_all(q._loopir_proc, dk):
            try:
                rq = interp.run_proc(r._loopir_proc, *val)
            except Exception as ex:
                self.violation(dict(base, oracle="reparse", kind="behaviour-exception"), {"event": ev, "printed": txt, "exc": repr(ex)})
                return
            d = inputs.compare_runs(rp, rq)
            if d not in (None, "vacuous"):
                self.violation(dict(base, oracle="reparse", kind="behaviour-differs"), {"event": ev, "printed": txt, "diff": d})
                return

    def finish(self):
        pass


def _norm_err(why):
    return re.sub(r"<vf-[^>]*>|:\d+:\d+|\d+", "", why)[:80]


def _first_diff(a, b):
    la, lb = a.split("\n"), b.split("\n")
    for x, y in zip(la, lb):
        if x != y:
            return {"orig": x[:300], "reparsed": y[:300]}
    return {"len": [len(la), len(lb)]}


def run(rep):
    tier = rep.tier
    st = plans.run_plan(rep, "vf.checks.c17", tier, plans.standard(tier, thorough_cap=400, families=None))
    fill_evidence(rep, st)
