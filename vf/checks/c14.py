"""C14 -- library instructions do what their Exo bodies say.

For every @instr of exo.platforms.x86 the host can execute, a wrapper procedure
is generated automatically from the instruction's signature: DRAM operands are
passed as windows at every offset 0..2 of a slightly larger buffer, register
operands are loaded from / stored back to DRAM around the call, size arguments
range over everything the assertions admit.  The wrapper is compiled by the real
back end and gcc, run on lane-distinct exact data, and compared with the
reference interpreter executing the instruction's Exo body."""
import json
import struct
from fractions import Fraction

from exo.core.LoopIR import LoopIR, T

from vf import cback, inputs, interp, par
from vf.poly import Poly

PREC = {"F32": "f32", "F64": "f64", "UINT16": "ui16", "INT8": "i8", "INT32": "i32", "UINT8": "ui8", "Num": "R"}
LOADERS = {  # (memory name, precision, lanes) -> (load instr, store instr)
    ("AVX2", "f32", 8): ("mm256_loadu_ps", "mm256_storeu_ps"),
    ("AVX2", "f64", 4): ("mm256_loadu_pd", "mm256_storeu_pd"),
    ("AVX2", "ui16", 16): ("mm256_loadu_si256", "mm256_storeu_si256"),
    ("AVX512", "f32", 16): ("mm512_loadu_ps", "mm512_storeu_ps"),
}


def all_instrs():
    import exo.platforms.x86 as X
    from exo.API import Procedure

    out = []
    for nm in sorted(dir(X)):
        v = getattr(X, nm)
        if isinstance(v, Procedure) and v.is_instr():
            out.append((nm, v))
    return out


def cpu_flags():
    try:
        txt = open("/proc/cpuinfo").read()
        line = [l for l in txt.splitlines() if l.startswith("flags")][0]
        return set(line.split(":")[1].split())
    except Exception:
        return set()


def dram_operands(instr):
    return [str(a.name) for a in instr._loopir_proc.args
            if a.type.is_numeric() and a.type.is_tensor_or_window() and (a.mem is None or a.mem.name() == "DRAM")]


def build_wrapper(nm, instr, off, strided=None):
    """-> (source text, entry name) or raises ValueError(reason) if the signature is outside the generator.
    strided: name of one DRAM operand that is passed as a NON-unit-stride window (a column of a wider
    buffer); the instruction's own stride assertions decide whether the front end admits that"""
    ir = instr._loopir_proc
    sig = []
    pre = []
    post = []
    call = []
    for a in ir.args:
        an = str(a.name)
        ty = a.type
        if not ty.is_numeric():
            if isinstance(ty, T.Size):
                sig.append(f"{an}: size")
            elif isinstance(ty, T.Index):
                sig.append(f"{an}: index")
            elif isinstance(ty, T.Bool):
                sig.append(f"{an}: bool")
            else:
                raise ValueError("unsupported control parameter")
            call.append(an)
            continue
        bt = PREC.get(type(ty.basetype()).__name__)
        if bt is None or bt == "R":
            raise ValueError("unsupported precision")
        mem = a.mem.name() if a.mem else "DRAM"
        if not ty.is_tensor_or_window():
            sig.append(f"{an}: {bt}")
            call.append(an)
            continue
        shp = [str(h) for h in ty.shape()]
        if mem == "DRAM" and strided == an:
            if len(shp) == 1:
                sig.append(f"{an}: {bt}[{shp[0]} + 1, 3]")
                call.append(f"{an}[0:{shp[0]}, 1]")
            elif len(shp) == 2:
                sig.append(f"{an}: {bt}[{shp[0]} + 1, {shp[1]} + 1, 2]")
                call.append(f"{an}[1:1 + {shp[0]}, 0:{shp[1]}, 1]")
            else:
                raise ValueError("rank")
        elif mem == "DRAM":
            if len(shp) == 1:
                sig.append(f"{an}: {bt}[{shp[0]} + 3]")
                call.append(f"{an}[{off}:{off} + {shp[0]}]")
            elif len(shp) == 2:
                sig.append(f"{an}: {bt}[{shp[0]} + 1, {shp[1]} + 3]")
                call.append(f"{an}[1:1 + {shp[0]}, {off}:{off} + {shp[1]}]")
            else:
                raise ValueError("rank")
        else:
            if len(shp) != 1 or not shp[0].isdigit():
                raise ValueError("register operand shape")
            key = (mem, bt, int(shp[0]))
            if key not in LOADERS:
                raise ValueError(f"no loader for {key}")
            ld, stt = LOADERS[key]
            sig.append(f"{an}_io: {bt}[{shp[0]}]")
            pre.append(f"{an}_r: {bt}[{shp[0]}] @ {mem}")
            pre.append(f"{ld}({an}_r, {an}_io)")
            post.append(f"{stt}({an}_io, {an}_r)")
            call.append(f"{an}_r")
    preds = []
    for p in ir.preds:
        s = str(p)
        if "stride" in s:
            continue
        preds.append(f"assert {s}")
    name = f"w_{nm}_{off}" + (f"_s{strided}" if strided else "")
    lines = ["@proc", f"def {name}({', '.join(sig)}):"] + ["    " + p for p in preds] + ["    " + p for p in pre]
    lines.append(f"    {nm}({', '.join(call)})")
    lines += ["    " + p for p in post]
    return "\n".join(lines) + "\n", name


def f32_round(fr):
    return Fraction(struct.unpack("f", struct.pack("f", float(fr)))[0])


def close(expected, got, bt):
    """expected Fraction, got float"""
    g = Fraction(got)
    if g == expected:
        return True
    if bt in ("f32", "f64"):
        ef = float(expected)
        tol = 2e-6 if bt == "f32" else 1e-12
        return abs(got - ef) <= tol * max(1.0, abs(ef))
    # integer precisions: the value is cast (truncated) when stored
    import math

    return math.trunc(expected) == got


def run_instr(job):
    from vf.exoutil import mkprocs
    from exo.API import compile_procs_to_strings

    nm, tier = job
    out = {"name": nm, "status": None, "vals": 0, "bad": [], "wrappers": 0}
    instr = dict(all_instrs())[nm]
    flags = cpu_flags()
    cins = instr._loopir_proc.instr.c_instr
    if "_mm512" in cins and "avx512f" not in flags:
        out["status"] = "skip:cpu-lacks-avx512"
        return out
    extra_flags = ["-mavx512f", "-mavx512bw", "-mavx512vl", "-mavx512dq"] if "_mm512" in cins or "AVX512" in str(instr) else []
    ns = None
    has_dram = any(a.type.is_numeric() and a.type.is_tensor_or_window() and (a.mem is None or a.mem.name() == "DRAM")
                   for a in instr._loopir_proc.args)
    offsets = (0, 1, 2) if tier != "quick" else ((0, 2) if has_dram else (0,))
    variants = [(off, None) for off in offsets] + [(0, an) for an in dram_operands(instr)]
    for off, strided in variants:
        try:
            src, entry = build_wrapper(nm, instr, off, strided)
        except ValueError as ex:
            if strided:
                continue
            out["status"] = f"skip:{ex}"
            return out
        try:
            ns = mkprocs("from exo.platforms.x86 import *\n" + src, tag="c14")
            w = ns[entry]
        except Exception as ex:
            if strided:
                # the instruction's assertions exclude this layout: outside the instruction's contract
                out["strided_refused"] = out.get("strided_refused", 0) + 1
                continue
            out["status"] = f"skip:wrapper-rejected:{type(ex).__name__}"
            out["detail"] = str(ex)[:300]
            return out
        try:
            c, h = compile_procs_to_strings([w], "prog.h")
        except Exception as ex:
            if strided:
                out["strided_refused"] = out.get("strided_refused", 0) + 1
                continue
            out["status"] = f"skip:compile-refused:{type(ex).__name__}"
            out["detail"] = str(ex)[:300]
            return out
        if strided:
            out["strided_admitted"] = out.get("strided_admitted", 0) + 1
        out["wrappers"] += 1
        ir = w._loopir_proc
        vals = list(inputs.control_domain(ir, sizes=tuple(range(1, 17)), idxs=(0, 1), max_vals=20))
        for pattern in ((0, 1) if (off == 0 or tier != "quick") else (0,)):
            keep, exp = [], []
            for v in vals:
                try:
                    r = cback.expected_runs(ir, [v], pattern)[0]
                except ValueError:
                    continue
                if r.abort or any(k in inputs.SAFETY_KINDS for k, _ in r.mon):
                    continue
                keep.append(v)
                exp.append(r)
            if not keep:
                continue
            driver, metas = cback.make_driver(ir, h, keep, "prog.h", pattern)
            r = cback.build_and_run(c, h, driver, extra_flags=extra_flags)
            if not r["compile_ok"] and r.get("stage") == "timeout":
                out["status"] = "harness-timeout"
                return out
            if not r["compile_ok"]:
                out["bad"].append({"kind": "c-compile-failed", "detail": r["compile_err"][-800:], "wrapper": src, "strided": strided or "-"})
                out["status"] = "ran"
                return out
            runs = cback.parse_dump(r["stdout"])
            for k, (v, e) in enumerate(zip(keep, exp)):
                out["vals"] += 1
                if k >= len(runs) or not runs[k]["complete"]:
                    out["bad"].append({"kind": "crash", "detail": r["stderr"][-800:], "wrapper": src, "input": str(v[0]), "offset": off, "strided": strided or "-"})
                    break
                got = runs[k]
                bad = None
                for fa in ir.args:
                    an = str(fa.name)
                    if an not in e.outs:
                        continue
                    bt = PREC.get(type(fa.type.basetype()).__name__, "f32")
                    for i, (pc, g) in enumerate(zip(e.outs[an], got["bufs"].get(an, []))):
                        if pc is None or not pc.is_const():
                            continue
                        if not close(pc.const_val(), g, bt):
                            bad = {"kind": "value-mismatch", "buf": an, "lane": i, "c_value": g, "expected": str(pc.const_val())}
                            break
                    if bad:
                        break
                if bad:
                    bad.update({"wrapper": src, "input": str(v[0]), "offset": off, "pattern": pattern, "instr": cins, "strided": strided or "-"})
                    out["bad"].append(bad)
                    break
            if out["bad"]:
                break
        if out["bad"]:
            break
    out["status"] = "ran"
    return out


def run(rep):
    tier = rep.tier
    names = [n for n, _ in all_instrs()]
    stat = {}
    nvals = nran = 0
    skipped = []
    for out in par.pmap(run_instr, [(n, tier) for n in names]):
        st = out["status"].split(":")[0] if out["status"] else "?"
        stat[st] = stat.get(st, 0) + 1
        if st == "skip":
            skipped.append(f"{out['name']}: {out['status']}")
        nvals += out["vals"]
        if out["status"] == "ran":
            nran += 1
        for k in ("strided_refused", "strided_admitted"):
            if out.get(k):
                rep.count(k, out[k])
        for b in out["bad"]:
            rep.violation({"oracle": "instr", "kind": b["kind"], "instr": out["name"], "strided": b.get("strided", "-")}, b)
    rep.set("evaluations", nvals)
    rep.set("distinct_nontrivial", nran)
    rep.set("instructions_total", len(names))
    rep.set("instruction_status", stat)
    rep.set("skipped", skipped)
    rep.set("exhaustive", True)
    rep.set("rule", "every @instr of exo.platforms.x86 whose operands the wrapper generator supports x window offset 0..2 x every "
                    "size/mask argument admitted by the assertions (1..16) x 2 lane-distinct exact data patterns; plus, per DRAM operand, a "
                    "non-unit-stride window (admitted only if the instruction's own assertions allow it); non-trivial = instruction executed")
    try:
        rep.sample({"wrapper": build_wrapper("mm256_fmadd_ps", dict(all_instrs())["mm256_fmadd_ps"], 1)[0]})
    except Exception:
        pass


def replay(art):
    print(art.get("wrapper"))
    print(json.dumps({k: v for k, v in art.items() if k != "wrapper"}, indent=1, default=str))
    return 1
