"""C10 -- configuration rewrites report every field they may change.

Explorer restricted to the configuration seeds and to the operations that touch
configuration state (bind_config, write_config, delete_config, call_eqv with
callees derived through chains with different mod-sets, and the neighbouring
rewrites around config reads/writes), depth 2/3, all initial control-typed
configuration states; oracle = C01 equivalence where exactly the fields the
system reports are exempt."""
from vf import explore, seeds, oracles, findings, plans
from vf.checks import c01
from vf.checks.c01 import fill_evidence, replay  # noqa

CONFIG_OPS = ["bind_config", "write_config", "delete_config", "call_eqv", "reorder_stmts", "fission", "fuse", "inline",
              "extract_subproc0", "insert_pass", "delete_pass", "simplify", "lift_scope", "eliminate_dead_code", "specialize",
              "remove_loop", "add_loop", "merge_writes", "inline_assign", "std.hoist_stmt", "std.lift_if", "unroll_loop"]


class Oracle(c01.Oracle):
    def after(self, ev, q, exc, outcome):
        # unrelated callee must be refused by call_eqv
        if ev["op"] == "call_eqv" and q is not None:
            tgt = ev["a"][1]["n"]
            if tgt == "kern_other":
                self.violation({"oracle": "call_eqv", "kind": "accepted-unrelated-callee", "op": "call_eqv", "seed": self.st.seed.name},
                               {"event": ev, "before": oracles.sstr(self.st.proc), "after": oracles.sstr(q)})
        super().after(ev, q, exc, outcome)


# operations driven over the generated configuration-dataflow family (729 programs, depth 1)
CFGGEN_OPS = ["delete_config", "write_config", "reorder_stmts", "remove_loop", "unroll_loop", "eliminate_dead_code",
              "fuse", "lift_scope", "inline", "merge_writes", "simplify"]


def run(rep):
    tier = rep.tier
    names = [s.name for s in seeds.SEEDS if s.group == "config"]
    gen = [s.name for s in seeds.cfg_seeds()]
    if tier == "quick":
        phases = [{"label": "A:config-seeds-depth2", "seeds": names, "depth": 2, "root_parts": 8, "ops": CONFIG_OPS, "max_states_per_level": 400},
                  {"label": "B:cfggen-depth1", "seeds": gen, "depth": 1, "root_parts": 1, "ops": CFGGEN_OPS}]
    else:
        phases = [{"label": "B:cfggen-depth1", "seeds": gen, "depth": 1, "root_parts": 1, "ops": CFGGEN_OPS},
                  {"label": "A:config-seeds-depth3", "seeds": names, "depth": 3, "root_parts": 8, "ops": CONFIG_OPS,
                   "max_states_per_level": 300, "time_budget_s": 3000}]
    st = plans.run_plan(rep, "vf.checks.c10", tier, phases)
    fill_evidence(rep, st)
