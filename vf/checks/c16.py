"""C16 -- find and cursor navigation are exact.

For every seed procedure (and its depth-1 successors under a few duplicating
rewrites) the patterns derived from the program's own statements/expressions
are matched by an independent matcher; find_all / find / #k / find_loop /
find_alloc_or_arg / cursor-scoped find must agree by node path and order.
Navigation laws are checked on every cursor position."""
import json
import re

from exo.core.LoopIR import LoopIR, T

from vf import irx, par, seeds


# ---------------------------------------------------------------------------
# independent matcher: predicates over IR nodes for the documented fragment


def ptxt(e):
    """pattern text of an expression using the variables' own names (not the
    printer's disambiguated names), fully parenthesised"""
    if isinstance(e, LoopIR.Read):
        nm = e.name.name()
        return f"{nm}[{', '.join(ptxt(i) for i in e.idx)}]" if e.idx else nm
    if isinstance(e, LoopIR.Const):
        return repr(e.val) if not isinstance(e.val, bool) else str(e.val)
    if isinstance(e, LoopIR.USub):
        return f"(-{ptxt(e.arg)})"
    if isinstance(e, LoopIR.BinOp):
        return f"({ptxt(e.lhs)} {e.op} {ptxt(e.rhs)})"
    if isinstance(e, LoopIR.Extern):
        return f"{e.f.name()}({', '.join(ptxt(a) for a in e.args)})"
    if isinstance(e, LoopIR.StrideExpr):
        return f"stride({e.name.name()}, {e.dim})"
    if isinstance(e, LoopIR.ReadConfig):
        return f"{e.config.name()}.{e.field}"
    raise ValueError(type(e))


def stxt(s):
    """pattern text of an assign / reduce statement"""
    nm = s.name.name()
    lhs = f"{nm}[{', '.join(ptxt(i) for i in s.idx)}]" if s.idx else nm
    op = "=" if isinstance(s, LoopIR.Assign) else "+="
    return f"{lhs} {op} {ptxt(s.rhs)}"


def _safe(f, x):
    try:
        return f(x)
    except ValueError:
        return None


def _holes(n):
    return ", ".join(["_"] * n)


def stmt_patterns(root):
    """-> list of (pattern_text, predicate(stmt)->bool) for single statements"""
    pats = {}

    def add(txt, pred):
        if txt not in pats:
            pats[txt] = pred

    for path, s in irx.all_stmts(root):
        if isinstance(s, LoopIR.For):
            nm = str(s.iter)
            add(f"for {nm} in _: _", lambda x, nm=nm: isinstance(x, LoopIR.For) and str(x.iter) == nm)
            add("for _ in _: _", lambda x: isinstance(x, LoopIR.For))
            lo, hi = _safe(ptxt, s.lo), _safe(ptxt, s.hi)
            if lo and hi:
                add(f"for {nm} in seq({lo}, {hi}): _",
                    lambda x, nm=nm, lo=lo, hi=hi: isinstance(x, LoopIR.For) and str(x.iter) == nm and _safe(ptxt, x.lo) == lo and _safe(ptxt, x.hi) == hi)
        elif isinstance(s, LoopIR.If):
            # the docs say `if _:_` matches if statements; nothing is said about else branches
            add("if _: _", lambda x: isinstance(x, LoopIR.If))
            # an explicit else clause in the pattern requires an else branch in the statement
            add("if _:\n    _\nelse:\n    _", lambda x: isinstance(x, LoopIR.If) and len(x.orelse) > 0)
            if s.orelse and len(s.orelse) == 1 and isinstance(s.orelse[0], (LoopIR.Assign, LoopIR.Reduce)):
                et = _safe(stxt, s.orelse[0])
                if et:
                    add(f"if _:\n    _\nelse:\n    {et}",
                        lambda x, et=et: isinstance(x, LoopIR.If) and len(x.orelse) == 1 and isinstance(x.orelse[0], (LoopIR.Assign, LoopIR.Reduce)) and _safe(stxt, x.orelse[0]) == et)
            if s.body and len(s.body) == 1 and isinstance(s.body[0], (LoopIR.Assign, LoopIR.Reduce)) and s.orelse:
                bt = _safe(stxt, s.body[0])
                if bt:
                    add(f"if _:\n    {bt}\nelse:\n    _",
                        lambda x, bt=bt: isinstance(x, LoopIR.If) and len(x.orelse) > 0 and len(x.body) == 1 and isinstance(x.body[0], (LoopIR.Assign, LoopIR.Reduce)) and _safe(stxt, x.body[0]) == bt)
            c = _safe(ptxt, s.cond)
            if not s.orelse and c:
                add(f"if {c}: _", lambda x, c=c: isinstance(x, LoopIR.If) and _safe(ptxt, x.cond) == c and not x.orelse)
        elif isinstance(s, (LoopIR.Assign, LoopIR.Reduce)):
            nm = str(s.name)
            k = len(s.idx)
            op = "=" if isinstance(s, LoopIR.Assign) else "+="
            cls = type(s)
            lhs = f"{nm}[{_holes(k)}]" if k else nm
            add(f"{lhs} {op} _", lambda x, nm=nm, k=k, cls=cls: isinstance(x, cls) and str(x.name) == nm and len(x.idx) == k)
            lhs_any = f"_[{_holes(k)}]" if k else "_"
            # exact text
            txt = _safe(stxt, s)
            if txt:
                add(txt, lambda x, txt=txt, cls=cls: isinstance(x, cls) and _safe(stxt, x) == txt)
        elif isinstance(s, LoopIR.Alloc):
            nm = str(s.name)
            add(f"{nm} : _", lambda x, nm=nm: isinstance(x, LoopIR.Alloc) and str(x.name) == nm)
        elif isinstance(s, LoopIR.Call):
            fn = str(s.f.name)
            add(f"{fn}(_)", lambda x, fn=fn: isinstance(x, LoopIR.Call) and str(x.f.name) == fn)
        elif isinstance(s, LoopIR.Pass):
            add("pass", lambda x: isinstance(x, LoopIR.Pass))
        elif isinstance(s, LoopIR.WriteConfig):
            c, f = s.config.name(), s.field
            add(f"{c}.{f} = _", lambda x, c=c, f=f: isinstance(x, LoopIR.WriteConfig) and x.config.name() == c and x.field == f)
    # a name that does not occur
    add("for zz_nope in _: _", lambda x: False)
    add("zz_nope = _", lambda x: False)
    return list(pats.items())


def expr_patterns(root):
    pats = {}

    def add(txt, pred):
        if txt not in pats:
            pats[txt] = pred

    for path, e in all_exprs_impl_order(root):
        if isinstance(e, LoopIR.Read) and e.idx:
            nm, k = str(e.name), len(e.idx)
            add(f"{nm}[{_holes(k)}]", lambda x, nm=nm, k=k: isinstance(x, LoopIR.Read) and str(x.name) == nm and len(x.idx) == k)
            txt = _safe(ptxt, e)
            if txt:
                add(txt, lambda x, txt=txt: isinstance(x, LoopIR.Read) and _safe(ptxt, x) == txt)
        elif isinstance(e, LoopIR.BinOp):
            op = str(e.op)
            if op in ("+", "-", "*", "/", "%", "<", ">", "<=", ">=", "=="):
                add(f"_ {op} _", lambda x, op=op: isinstance(x, LoopIR.BinOp) and str(x.op) == op)
        elif isinstance(e, LoopIR.Const) and isinstance(e.val, float) and e.val != int(e.val):
            v = e.val
            add(repr(v), lambda x, v=v: isinstance(x, LoopIR.Const) and not isinstance(x.val, bool) and x.val == v)
        elif isinstance(e, LoopIR.StrideExpr):
            nm, d = str(e.name), e.dim
            add(f"stride({nm}, {d})", lambda x, nm=nm, d=d: isinstance(x, LoopIR.StrideExpr) and str(x.name) == nm and x.dim == d)
        elif isinstance(e, LoopIR.ReadConfig):
            c, f = e.config.name(), e.field
            add(f"{c}.{f}", lambda x, c=c, f=f: isinstance(x, LoopIR.ReadConfig) and x.config.name() == c and x.field == f)
        # extern applications: `f(_)` is parsed as a call *statement* pattern; no documented expression form
    return list(pats.items())


def all_exprs_impl_order(root, under=None):
    """(path, expr) in textual pre-order, including window accesses"""
    out = []

    def rec_e(path, e):
        out.append((path, e))
        if isinstance(e, LoopIR.WindowExpr):
            for i, w in enumerate(e.idx):
                wp = path + [("idx", i)]
                if isinstance(w, LoopIR.Point):
                    rec_e(wp + [("pt", None)], w.pt)
                else:
                    rec_e(wp + [("lo", None)], w.lo)
                    rec_e(wp + [("hi", None)], w.hi)
            return
        for attr, i, c in irx.expr_children_attr(e):
            rec_e(path + [(attr, i)], c)

    def rec_s(path, s):
        if isinstance(s, (LoopIR.Assign, LoopIR.Reduce)):
            for i, e in enumerate(s.idx):
                rec_e(path + [("idx", i)], e)
            rec_e(path + [("rhs", None)], s.rhs)
        elif isinstance(s, (LoopIR.WriteConfig, LoopIR.WindowStmt)):
            rec_e(path + [("rhs", None)], s.rhs)
        elif isinstance(s, LoopIR.If):
            rec_e(path + [("cond", None)], s.cond)
            for i, c in enumerate(s.body):
                rec_s(path + [("body", i)], c)
            for i, c in enumerate(s.orelse):
                rec_s(path + [("orelse", i)], c)
        elif isinstance(s, LoopIR.For):
            rec_e(path + [("lo", None)], s.lo)
            rec_e(path + [("hi", None)], s.hi)
            for i, c in enumerate(s.body):
                rec_s(path + [("body", i)], c)
        elif isinstance(s, LoopIR.Call):
            for i, e in enumerate(s.args):
                rec_e(path + [("args", i)], e)

    if under is None:
        for i, s in enumerate(root.body):
            rec_s([("body", i)], s)
    else:
        path, s = under
        rec_s(list(path), s)
    return out


def cursor_path(c):
    impl = c._impl
    from exo.core import internal_cursors as ic

    if isinstance(impl, ic.Node):
        return ("node", tuple(tuple(x) for x in impl._path))
    if isinstance(impl, ic.Block):
        return ("block", tuple(tuple(x) for x in impl._anchor._path), impl._attr, impl._range.start, impl._range.stop)
    return ("other", repr(impl))


def expect_node(path):
    return ("node", tuple(tuple(x) for x in path))


def run_seed(job):
    from exo.API import SchedulingError
    from exo.stdlib import scheduling as S

    sname, variant, tier = job
    out = {"n": 0, "nontriv": 0, "bad": [], "nav": 0, "procs": 0, "sample": None}
    seed = seeds.by_name(sname)
    try:
        p, ns = seed.build()
    except Exception as ex:
        out["bad"].append({"kind": "harness", "detail": repr(ex)})
        return out
    procs = [("seed", p)]
    # depth-1 successors that duplicate names
    for label, f in (("unroll", lambda: S.unroll_loop(p, p.find_loop("i"))),
                     ("cut", lambda: S.cut_loop(p, p.find_loop("i"), 1)),
                     # a cut point that is an expression: it becomes the LOWER bound of the second loop
                     ("cut_expr", lambda: S.cut_loop(p, p.find_loop("i"), "n / 2")),
                     ("shift", lambda: S.shift_loop(p, p.find_loop("i"), "n + 1")),
                     ("divide", lambda: S.divide_loop(p, p.find_loop("i"), 2, ["i", "i"], tail="cut"))):
        try:
            procs.append((label, f()))
        except Exception:
            pass
    for label, pr in procs:
        out["procs"] += 1
        root = pr._loopir_proc
        stmts = irx.all_stmts(root)
        exprs = all_exprs_impl_order(root)

        def bad(kind, **kw):
            out["bad"].append(dict(kind=kind, seed=sname, variant=label, proc=str(pr), **kw))

        # ---- statement patterns
        for txt, pred in stmt_patterns(root):
            want = [expect_node(path) for path, s in stmts if pred(s)]
            check_find(pr, txt, want, out, bad, S)
        # ---- two-statement sequences
        for ppath, attr, lst in irx.all_blocks(root):
            for j in range(len(lst) - 1):
                a, b = lst[j], lst[j + 1]
                ta, tb = simple_pat(a), simple_pat(b)
                if ta is None or tb is None:
                    continue
                txt = f"{ta[0]}\n{tb[0]}" if ta[0].startswith("for ") else f"{ta[0]} ; {tb[0]}"
                want = []
                for pp2, attr2, lst2 in blocks_preorder(root):
                    for k in range(len(lst2) - 1):
                        if ta[1](lst2[k]) and tb[1](lst2[k + 1]):
                            want.append(("block", tuple(tuple(x) for x in pp2), attr2, k, k + 2))
                want.sort(key=lambda w: block_order_key(root, w))
                check_find(pr, txt, want, out, bad, S, is_block=True)
        # ---- expression patterns
        for txt, pred in expr_patterns(root):
            want = [expect_node(path) for path, e in exprs if pred(e)]
            check_find(pr, txt, want, out, bad, S)
        # ---- find_loop shorthands
        names = []
        for path, s in stmts:
            if isinstance(s, LoopIR.For) and str(s.iter) not in names:
                names.append(str(s.iter))
        for nm in names:
            want = [expect_node(path) for path, s in stmts if isinstance(s, LoopIR.For) and str(s.iter) == nm]
            for k in range(len(want) + 1):
                for form in (f"{nm} #{k}", f"{nm} # {k}", f"{nm}#{k}"):
                    out["n"] += 1
                    try:
                        got = cursor_path(pr.find_loop(form))
                        if k >= len(want) or got != want[k]:
                            bad("find_loop", pattern=form, got=str(got), want=str(want[k] if k < len(want) else "SchedulingError"),
                                space_form=" # " in form)
                    except SchedulingError:
                        if k < len(want):
                            bad("find_loop", pattern=form, got="SchedulingError", want=str(want[k]))
                    except Exception as ex:
                        bad("find_loop-exception", pattern=form, got=repr(ex)[:100])
            out["n"] += 1
            try:
                got = [cursor_path(c) for c in pr.find_loop(nm, many=True)]
                if got != want:
                    bad("find_loop-many", pattern=nm, got=str(got), want=str(want))
            except Exception as ex:
                bad("find_loop-exception", pattern=nm, got=repr(ex)[:100])
        # ---- find_alloc_or_arg
        for i, a in enumerate(root.args):
            out["n"] += 1
            try:
                c = pr.find_alloc_or_arg(str(a.name))
                if cursor_path(c) != ("node", (("args", i),)):
                    first = [j for j, b in enumerate(root.args) if str(b.name) == str(a.name)][0]
                    if cursor_path(c) != ("node", (("args", first),)):
                        bad("find_alloc_or_arg", pattern=str(a.name), got=str(cursor_path(c)))
            except Exception as ex:
                bad("find_alloc_or_arg-exception", pattern=str(a.name), got=repr(ex)[:100])
        argnames = {str(a.name) for a in root.args}
        for path, s in stmts:
            if isinstance(s, LoopIR.Alloc) and str(s.name) not in argnames:
                out["n"] += 1
                want = [expect_node(pp) for pp, x in stmts if isinstance(x, LoopIR.Alloc) and str(x.name) == str(s.name)]
                try:
                    c = pr.find_alloc_or_arg(str(s.name))
                    if cursor_path(c) != want[0]:
                        bad("find_alloc_or_arg", pattern=str(s.name), got=str(cursor_path(c)), want=str(want[0]))
                except Exception as ex:
                    bad("find_alloc_or_arg-exception", pattern=str(s.name), got=repr(ex)[:100])
        # ---- cursor-scoped find
        for path, s in stmts:
            if isinstance(s, (LoopIR.For, LoopIR.If)):
                from vf.menus import resolve, N

                c = resolve(N(path), pr, {})
                sub = [(pp, x) for pp, x in stmts if tuple(pp[: len(path)]) == tuple(path)]
                for txt, pred in stmt_patterns(root)[:12]:
                    want = [expect_node(pp) for pp, x in sub if pred(x)]
                    out["n"] += 1
                    try:
                        got = [cursor_path(x) for x in c.find(txt, many=True)]
                    except SchedulingError:
                        got = []
                    except Exception as ex:
                        bad("scoped-find-exception", pattern=txt, got=repr(ex)[:100])
                        continue
                    if got != want:
                        bad("scoped-find", pattern=txt, scope=str(path), got=str(got), want=str(want))
        # ---- navigation laws
        nav_laws(pr, root, stmts, out, bad)
        if out["sample"] is None and stmts:
            out["sample"] = {"seed": sname, "patterns": [t for t, _ in stmt_patterns(root)[:5]] + [t for t, _ in expr_patterns(root)[:5]]}
    return out


def blocks_preorder(root):
    return irx.all_blocks(root)


def block_order_key(root, w):
    # order of the match = pre-order position of its first statement
    _, pp, attr, lo, hi = w
    first = tuple(pp) + ((attr, lo),)
    order = [tuple(tuple(x) for x in p) for p, _ in irx.all_stmts(root)]
    return order.index(first)


def simple_pat(s):
    if isinstance(s, (LoopIR.Assign, LoopIR.Reduce)):
        txt = _safe(stxt, s)
        cls = type(s)
        if not txt:
            return None
        return txt, (lambda x, txt=txt, cls=cls: isinstance(x, cls) and _safe(stxt, x) == txt)
    if isinstance(s, LoopIR.For):
        nm = str(s.iter)
        return f"for {nm} in _: _", (lambda x, nm=nm: isinstance(x, LoopIR.For) and str(x.iter) == nm)
    if isinstance(s, LoopIR.Pass):
        return "pass", (lambda x: isinstance(x, LoopIR.Pass))
    return None


def check_find(pr, txt, want, out, bad, S, is_block=False):
    from exo.API import SchedulingError

    out["n"] += 1
    if want:
        out["nontriv"] += 1
    try:
        got_all = pr.find_all(txt)
        got = [norm(cursor_path(c)) for c in got_all]
    except SchedulingError:
        got = []
    except Exception as ex:
        # pattern outside the parseable fragment: not a verdict
        out.setdefault("unparsed", 0)
        out["unparsed"] += 1
        return
    wantn = [norm(w) for w in want]
    if got != wantn:
        bad("find_all", pattern=txt, got=str(got)[:300], want=str(wantn)[:300])
        return
    for k in range(len(want) + 1):
        out["n"] += 1
        try:
            g = norm(cursor_path(pr.find(f"{txt} #{k}")))
            if k >= len(want):
                bad("find-k", pattern=f"{txt} #{k}", got=str(g), want="SchedulingError")
            elif g != wantn[k]:
                bad("find-k", pattern=f"{txt} #{k}", got=str(g), want=str(wantn[k]))
        except SchedulingError:
            if k < len(want):
                bad("find-k", pattern=f"{txt} #{k}", got="SchedulingError", want=str(wantn[k]))
        except Exception as ex:
            bad("find-exception", pattern=f"{txt} #{k}", got=repr(ex)[:100])
    # default (no #k) is the first match
    out["n"] += 1
    try:
        g = norm(cursor_path(pr.find(txt)))
        if not want or g != wantn[0]:
            bad("find-default", pattern=txt, got=str(g), want=str(wantn[0]) if want else "SchedulingError")
    except SchedulingError:
        if want:
            bad("find-default", pattern=txt, got="SchedulingError", want=str(wantn[0]))


def norm(cp):
    """blocks of length 1 are returned as nodes by find"""
    if cp[0] == "block" and cp[4] - cp[3] == 1:
        return ("node", tuple(cp[1]) + ((cp[2], cp[3]),))
    return cp


def nav_laws(pr, root, stmts, out, bad):
    from exo.API_cursors import InvalidCursor, BlockCursor
    from exo.core.internal_cursors import InvalidCursorError
    from vf.menus import resolve, N, B

    def laws_for(path, s):
        c = resolve(N(path), pr, {})
        attr, i = path[-1]
        ppath = path[:-1]
        # siblings list
        par_node = root
        for a, k in ppath:
            par_node = getattr(par_node, a)
            if k is not None:
                par_node = par_node[k]
        sibs = getattr(par_node, attr)
        out["nav"] += 1

        def law(name, ok, **kw):
            out["nav"] += 1
            if callable(ok):
                try:
                    ok = ok()
                except Exception as ex:
                    bad("nav-exception-" + name, cursor=str(path), exc=repr(ex)[:120])
                    return
            if not ok:
                bad("nav-" + name, cursor=str(path), **kw)

        nx = c.next()
        pv = c.prev()
        law("next-edge", isinstance(nx, InvalidCursor) == (i == len(sibs) - 1))
        law("prev-edge", isinstance(pv, InvalidCursor) == (i == 0))
        if not isinstance(nx, InvalidCursor):
            law("next-is-sibling", cursor_path(nx) == expect_node(ppath + [(attr, i + 1)]))
            law("next-prev-inverse", cursor_path(nx.prev()) == cursor_path(c))
        if not isinstance(pv, InvalidCursor):
            law("prev-is-sibling", cursor_path(pv) == expect_node(ppath + [(attr, i - 1)]))
            law("prev-next-inverse", cursor_path(pv.next()) == cursor_path(c))
        for d in (2, 3):
            far = c.next(d)
            law(f"next{d}", isinstance(far, InvalidCursor) == (i + d > len(sibs) - 1) and
                (isinstance(far, InvalidCursor) or cursor_path(far) == expect_node(ppath + [(attr, i + d)])))
        law("before-anchor", cursor_path(c.before().anchor()) == cursor_path(c))
        law("after-anchor", cursor_path(c.after().anchor()) == cursor_path(c))
        law("as_block-0", cursor_path(c.as_block()[0]) == cursor_path(c) and len(c.as_block()) == 1)
        if ppath:
            law("parent", cursor_path(c.parent()) == expect_node(ppath))
            par_c = c.parent()
            blk = par_c.body() if attr == "body" else par_c.orelse()
            law("parent-child-index", len(blk) == len(sibs) and cursor_path(blk[i]) == cursor_path(c))
        else:
            law("root-parent-child-index", cursor_path(pr.body()[i]) == cursor_path(c) and len(pr.body()) == len(sibs))
        # expand / slicing
        full = c.expand()
        law("expand-full", len(full) == len(sibs) and cursor_path(full[i]) == cursor_path(c))
        e00 = c.expand(0, 0)
        law("expand-0-0", len(e00) == 1 and cursor_path(e00[0]) == cursor_path(c))
        e11 = c.expand(1, 1)
        lo = max(0, i - 1)
        hi = min(len(sibs), i + 2)
        law("expand-1-1", len(e11) == hi - lo and cursor_path(e11[0]) == expect_node(ppath + [(attr, lo)]))
        sl = full[i:i + 1]
        law("slice-roundtrip", isinstance(sl, BlockCursor) and len(sl) == 1 and cursor_path(sl[0]) == cursor_path(c))
        law("block-before-after", cursor_path(full.before().anchor()) == expect_node(ppath + [(attr, 0)]) and
            cursor_path(full.after().anchor()) == expect_node(ppath + [(attr, len(sibs) - 1)]))
        it = [cursor_path(x) for x in full]
        law("block-iter", it == [expect_node(ppath + [(attr, k)]) for k in range(len(sibs))])

    for path, s in stmts:
        try:
            laws_for(path, s)
        except Exception as ex:
            out["nav"] += 1
            bad("nav-exception", cursor=str(path), exc=f"{type(ex).__name__}: {ex}"[:160])


def run(rep):
    tier = rep.tier
    names = [s.name for s in seeds.SEEDS]
    jobs = [(n, 0, tier) for n in names]
    tot = nontriv = nav = procs = unparsed = 0
    for out in par.pmap(run_seed, jobs):
        tot += out["n"]
        nontriv += out["nontriv"]
        nav += out["nav"]
        procs += out["procs"]
        unparsed += out.get("unparsed", 0)
        if out["sample"]:
            rep.sample(out["sample"])
        for b in out["bad"]:
            cause = "-"
            if b["kind"] in ("find_all", "scoped-find", "find-k", "find-default") and re.match(r"^\w+\[", str(b.get("pattern"))) and "args" in str(b.get("got")):
                cause = "indexed-read-pattern-matches-bare-buffer-argument"
            sig = {"oracle": "find" if not b["kind"].startswith("nav") else "nav", "kind": b["kind"], "pattern": b.get("pattern"), "cause": cause,
                   "seed": b.get("seed"), "variant": b.get("variant"), "space_form": b.get("space_form", False)}
            rep.violation(sig, b)
    rep.set("evaluations", tot + nav)
    rep.set("find_queries", tot)
    rep.set("navigation_law_instances", nav)
    rep.set("distinct_nontrivial", nontriv)
    rep.set("procedures", procs)
    rep.set("patterns_outside_parseable_fragment", unparsed)
    rep.set("exhaustive", True)
    rep.set("rule", "patterns derived from every statement and expression of every seed procedure (and unroll/cut/divide successors "
                    "that duplicate names) x #k for k in 0..count; non-trivial = pattern with at least one expected match; "
                    "navigation laws on every statement cursor")


def replay(art):
    print(json.dumps(art, indent=1, default=str)[:3000])
    return 1
