"""C09 -- parallel loops that compile are race-free.

The dependence statement alphabet is placed under `par` at every position (top
level, inside seq, inside if, inside par, inside a callee) and parallelize_loop
is applied to every loop of every seed.  If the real back end compiles the
procedure, the reference interpreter's per-iteration conflict sets must be
disjoint on the whole control domain, and every permutation of the iterations of
every par loop instance (<= 3 iterations) must give the sequential result."""
import itertools
import json

from exo.core.LoopIR import LoopIR

from vf import inputs, interp, irx, par, seeds

ALPHA = [
    ("xw", "x[i] = a[i]"), ("xr", "y[i] = x[i]"), ("xrm", "y[i] = x[i + 1]"), ("xrp", "z[i + 1] = x[i]"),
    ("xacc", "x[i] += a[i]"), ("x0w", "x[0] = a[i]"), ("x0r", "z[i] = x[0]"), ("x0acc", "x[0] += a[i]"),
    ("sacc", "s += a[i]"), ("sw", "s = a[i]"), ("sr", "z[i] = s"), ("tloc", "t: f32\n{I}t = a[i]\n{I}z[i] = t"),
    ("cw", "CFG.a = 1"), ("xj", "x[j] = a[i]"),
]
POSITIONS = ["top", "in_seq", "in_if", "in_par", "in_callee", "seq_in_par"]

CFG = """
@config
class CFG:
    a: index
"""


def program(k1, s1, k2, s2, pos, uid):
    sig = "n: size, a: f32[n + 1], x: f32[n + 1], y: f32[n + 1], z: f32[n + 2], s: f32"

    def body(ind):
        I = "    " * ind
        lines = []
        for st in (s1, s2):
            if st is None:
                continue
            st = st.replace("{I}", I)
            lines.append(I + st)
        return "\n".join(lines)

    name = f"par_{uid}"
    if pos == "top":
        src = f"@proc\ndef {name}({sig}):\n    for i in par(0, n):\n{body(2)}\n"
    elif pos == "in_seq":
        src = f"@proc\ndef {name}({sig}):\n    for j in seq(0, 2):\n        for i in par(0, n):\n{body(3)}\n"
    elif pos == "in_if":
        src = f"@proc\ndef {name}({sig}):\n    if n > 1:\n        for i in par(0, n):\n{body(3)}\n"
    elif pos == "in_par":
        src = f"@proc\ndef {name}({sig}):\n    for j in par(0, 2):\n        for i in par(0, n):\n{body(3)}\n"
    elif pos == "seq_in_par":
        src = f"@proc\ndef {name}({sig}):\n    for i in par(0, n):\n        for j in seq(0, 2):\n{body(3)}\n"
    else:
        src = (f"@proc\ndef {name}_c({sig}):\n    for i in par(0, n):\n{body(2)}\n\n"
               f"@proc\ndef {name}({sig}):\n    for j in seq(0, 2):\n        {name}_c(n, a, x, y, z, s)\n")
    return CFG + src


def gen_programs(tier):
    out = []
    uid = 0
    singles = [(k, s) for k, s in ALPHA]
    pairs = list(itertools.product(singles, singles)) if tier != "quick" else \
        [(a, b) for a, b in itertools.product(singles, singles) if a[0] <= b[0]]
    for pos in POSITIONS:
        for (k1, s1) in singles:
            if "j" in s1 and pos not in ("in_seq", "in_par", "seq_in_par"):
                continue
            out.append((f"par_{uid}", program(k1, s1, None, None, pos, uid), (pos, k1)))
            uid += 1
    for pos in (POSITIONS if tier != "quick" else ["top", "in_seq", "in_callee"]):
        for (k1, s1), (k2, s2) in pairs:
            if ("j" in s1 or "j" in s2) and pos not in ("in_seq", "in_par", "seq_in_par"):
                continue
            if k1 == "tloc" and k2 == "tloc":
                continue
            out.append((f"par_{uid}", program(k1, s1, k2, s2, pos, uid), (pos, k1, k2)))
            uid += 1
    return out


def check_proc(p, label, out, tags, src=None):
    from exo.API import compile_procs_to_strings

    ir = p._loopir_proc
    try:
        compile_procs_to_strings([p], "p.h")
    except Exception as ex:
        out["compile_refused"] += 1
        return
    out["compiled"] += 1
    dk = dict(sizes=(1, 2, 3), idxs=(0, 1), cfg_vals=(0, 1), layouts=("dense",), max_vals=12)
    for ctrl, lay, cfg0 in inputs.control_domain(ir, **dk):
        try:
            r = interp.run_proc(ir, ctrl, lay, cfg0)
        except ValueError:
            continue
        out["vals"] += 1
        conf = [d for k, d in r.mon if k == "par_conflict"]
        if conf:
            out["bad"].append({"kind": "race", "label": label, "tags": list(tags), "detail": conf[0], "input": str(ctrl), "proc": str(p), "src": src})
            return
        # every permutation of the iterations of par loops (all par loops permuted alike)
        for perm_id in range(1, 6):
            def order(its, perm_id=perm_id):
                if len(its) > 3:
                    return its
                perms = list(itertools.permutations(its))
                return list(perms[perm_id % len(perms)])

            try:
                r2 = interp.run_proc(ir, ctrl, lay, cfg0, par_order=order, monitors=False)
            except ValueError:
                continue
            d = inputs.compare_runs(r, r2)
            out["perm_runs"] += 1
            if d not in (None, "vacuous"):
                out["bad"].append({"kind": "order-dependent", "label": label, "tags": list(tags), "diff": {k: str(v) for k, v in d.items()},
                                   "input": str(ctrl), "proc": str(p), "src": src})
                return


def run_chunk(job):
    from vf.exoutil import mkprocs
    from exo.stdlib import scheduling as S

    out = {"n": 0, "accepted": 0, "compiled": 0, "compile_refused": 0, "vals": 0, "perm_runs": 0, "bad": []}
    for kind, item in job:
        out["n"] += 1
        if kind == "gen":
            name, src, tags = item
            try:
                ns = mkprocs(src, tag="c09")
            except Exception:
                continue
            out["accepted"] += 1
            check_proc(ns[name], name, out, tags, src)
        else:
            sname = item
            seed = seeds.by_name(sname)
            p, ns = seed.build()
            for path, s in irx.all_stmts(p._loopir_proc):
                if isinstance(s, LoopIR.For):
                    from vf.menus import resolve, N

                    try:
                        q = S.parallelize_loop(p, resolve(N(path), p, ns))
                    except Exception:
                        continue
                    out["accepted"] += 1
                    check_proc(q, f"{sname}:{path}", out, ("parallelize_loop", sname), None)
    return out


def run(rep):
    tier = rep.tier
    jobs = [("gen", g) for g in gen_programs(tier)] + [("seed", s.name) for s in seeds.SEEDS]
    if rep.seed:
        import random

        random.Random(rep.seed).shuffle(jobs)
    agg = {"n": 0, "accepted": 0, "compiled": 0, "compile_refused": 0, "vals": 0, "perm_runs": 0}
    for out in par.pmap(run_chunk, par.chunks(jobs, 64)):
        for k in agg:
            agg[k] += out[k]
        for b in out["bad"]:
            pos = b["tags"][0] if b["tags"] else "-"
            rep.violation({"oracle": "par", "kind": b["kind"], "position": pos, "tags": "/".join(map(str, b["tags"]))}, b)
    rep.set("evaluations", agg["n"])
    rep.set("distinct_nontrivial", agg["compiled"])
    for k, v in agg.items():
        rep.set(k, v)
    rep.set("exhaustive", True)
    rep.set("rule", "dependence alphabet (14 statements, singles and pairs) under par at 6 positions + parallelize_loop on every loop of every seed; "
                    "non-trivial = the back end compiled the procedure (otherwise the property is satisfied by refusal)")
    g = gen_programs(tier)
    rep.sample({"program": g[0][1]})
    rep.sample({"program": g[len(g) // 2][1]})


def replay(art):
    print(art.get("src") or art.get("proc"))
    print(json.dumps({k: v for k, v in art.items() if k not in ("src", "proc")}, indent=1, default=str))
    return 1
