"""C05 -- replace only substitutes true instances of the callee.

Explorer on the `call` seeds (kernels x candidate callees incl. window / size /
index / stride-assert parameters): `replace` on EVERY block of every length
with every candidate, replace_all / replace_all_stmts, then `inline` of the new
call and further replace as a second step.  When replace returns q:
  (1) q is interpreter-equivalent to p with the callee executed from its body,
  (2) at the new call site the callee's assertions, size positivity, shapes and
      aliasing rules hold on the whole control domain (interpreter monitors),
  (3) inlining the new call gives back a program equivalent to p."""
import json

from exo.core.LoopIR import LoopIR

from vf import explore, seeds, oracles, findings, inputs, interp, irx
from vf.oracles import BaseOracle
from vf.checks.c01 import fill_evidence, replay  # noqa

OPS = ["replace", "std.replace_all", "std.replace_all_stmts", "inline", "simplify", "divide_loop", "reorder_loops"]


class Oracle(BaseOracle):
    def after(self, ev, q, exc, outcome):
        if q is None or not ev["op"].startswith(("replace", "std.replace")):
            return
        p = self.st.proc
        self.stat("replace_succeeded")
        base = {"op": ev["op"], "seed": self.st.seed.name, "depth": len(self.st.hist) + 1, "where": findings.where_of(ev, p)}
        callee = ev["a"][1]["n"] if ev["op"] == "replace" else "*"
        base["callee"] = callee
        art = {"event": ev, "before": oracles.sstr(p), "after": oracles.sstr(q)}
        cause = findings.cause_of(ev, p, q, "value-mismatch")
        qir = q._loopir_proc
        for val, rp in self.p_runs():
            if rp.abort or any(k in inputs.SAFETY_KINDS for k, _ in rp.mon):
                continue
            ctrl, lay, cfg0 = val
            try:
                rq = interp.run_proc(qir, ctrl, lay, cfg0)
            except ValueError:
                self.violation(dict(base, oracle="replace", kind="precondition-narrowed", cause=cause), dict(art, input=oracles.jsonable_val(val)))
                return
            self.stat("valuations")
            d = inputs.compare_runs(rp, rq)
            if d not in (None, "vacuous") and d.get("kind") != "size":
                self.violation(dict(base, oracle="replace", kind=d["kind"], cause=cause), dict(art, diff={k: str(v) for k, v in d.items()}, input=oracles.jsonable_val(val)))
                return
            new = inputs.new_safety(rp, rq)
            if new:
                self.violation(dict(base, oracle="replace-callsite", kind=new[0][0], cause=cause),
                               dict(art, monitors=[list(x) for x in new[:3]], input=oracles.jsonable_val(val)))
                return
        # (3) inline every call that is new in q and compare with p
        from exo.stdlib import scheduling as S
        from vf.menus import resolve, N

        p_calls = {id(s) for _, s in irx.all_stmts(p._loopir_proc) if isinstance(s, LoopIR.Call)}
        r = q
        try:
            while True:
                newcalls = [(path, s) for path, s in irx.all_stmts(r._loopir_proc) if isinstance(s, LoopIR.Call) and id(s) not in p_calls]
                if not newcalls:
                    break
                r = S.inline(r, resolve(N(newcalls[0][0]), r, self.st.ns))
        except Exception as ex:
            self.stat("inline_back_refused")
            return
        self.stat("inlined_back")
        rir = r._loopir_proc
        for val, rp in self.p_runs():
            if rp.abort or any(k in inputs.SAFETY_KINDS for k, _ in rp.mon):
                continue
            try:
                rr = interp.run_proc(rir, *val)
            except ValueError:
                continue
            d = inputs.compare_runs(rp, rr)
            if d not in (None, "vacuous") and d.get("kind") != "size":
                self.violation(dict(base, oracle="inline-back", kind=d["kind"], cause=cause), dict(art, inlined=oracles.sstr(r), diff={k: str(v) for k, v in d.items()}))
                return


def run(rep):
    tier = rep.tier
    names = [s.name for s in seeds.SEEDS if s.group == "call" or s.name in ("win/call", "win/stride_assert", "config/callee")]
    if tier == "quick":
        st = explore.explore(rep, names, "vf.checks.c05", tier, depth=2, root_parts=8, ops=OPS, max_states_per_level=400)
    else:
        st = explore.explore(rep, names, "vf.checks.c05", "thorough", depth=3, root_parts=8, ops=OPS, max_states_per_level=300, time_budget_s=3000)
    fill_evidence(rep, st)
