"""C19 -- signature- and annotation-changing utilities keep the loop nest.

For every seed: partial_eval over every subset of control arguments and every
value of the control domain (positional and keyword), transpose of every 2-D
argument, add_assertion over the condition alphabet, rename, make_instr,
set_precision / set_memory / set_window on every buffer with every value and
parallelize_loop on every loop; the documented input relation is checked with
the reference interpreter on the whole control domain."""
import itertools
import json

from exo.core.LoopIR import LoopIR, T

from vf import inputs, interp, irx, par, seeds
from vf.poly import Poly, poly_str

DK = dict(sizes=(1, 2, 3), idxs=(-1, 0, 1, 2), cfg_vals=(0, 1), layouts=("dense", "strided"), max_vals=48)


def _cmp(out, rp, rq, what, art, mapcell=None):
    d = inputs.compare_runs(rp, rq)
    if d == "vacuous":
        out["vacuous"] += 1
        return True
    if d is not None and d.get("kind") != "size":
        out["bad"].append(dict(art, kind=d["kind"], what=what, diff={k: str(v) for k, v in d.items()}))
        return False
    return True


def run_seed(sname):
    from exo.stdlib import scheduling as S

    out = {"n": 0, "nontriv": 0, "bad": [], "vacuous": 0, "refused": 0, "samples": []}
    seed = seeds.by_name(sname)
    p, ns = seed.build()
    ir = p._loopir_proc
    runs = inputs.run_all(ir, DK)
    if len(runs) < 2:
        runs = inputs.run_all(ir, dict(DK, sizes=tuple(range(1, 13)), max_vals=2000))[:8]
    ctrl_args = [a for a in ir.args if not a.type.is_numeric()]
    base = {"seed": sname}

    def attempt(label, fn):
        out["n"] += 1
        try:
            return fn()
        except Exception as ex:
            out["refused"] += 1
            return None

    # ---------------------------------------------------------- partial_eval
    names = [str(a.name) for a in ctrl_args]
    for r in range(1, len(names) + 1):
        for sub in itertools.combinations(names, r):
            # values: those occurring in the valid valuations
            seen_vals = sorted({tuple(v[0][n] for n in sub) for v, _ in runs}, key=str)
            for vals in seen_vals:
                kw = dict(zip(sub, vals))
                q = attempt("partial_eval", lambda: p.partial_eval(**kw))
                if q is None:
                    continue
                out["nontriv"] += 1
                if len(out["samples"]) < 2:
                    out["samples"].append({"seed": sname, "op": "partial_eval", "kw": {k: str(v) for k, v in kw.items()}})
                for (ctrl, lay, cfg0), rp in runs:
                    if any(ctrl[k] != v for k, v in kw.items()):
                        continue
                    c2 = {k: v for k, v in ctrl.items() if k not in kw}
                    try:
                        rq = interp.run_proc(q._loopir_proc, c2, lay, cfg0)
                    except ValueError:
                        out["bad"].append(dict(base, op="partial_eval", kind="precondition-narrowed", args=str(kw), input=str(ctrl)))
                        break
                    except KeyError as ex:
                        out["bad"].append(dict(base, op="partial_eval", kind="signature", args=str(kw), detail=repr(ex)))
                        break
                    if not _cmp(out, rp, rq, "partial_eval", dict(base, op="partial_eval", args=str(kw), input=str(ctrl), after=str(q))):
                        break
            # positional form for prefixes of the signature
    all_names = [str(a.name) for a in ir.args]
    k = 0
    while k < len(ir.args) and not ir.args[k].type.is_numeric():
        k += 1
    for plen in range(1, k + 1):
        vals_seen = sorted({tuple(v[0][n] for n in all_names[:plen]) for v, _ in runs}, key=str)
        for vals in vals_seen[:4]:
            q = attempt("partial_eval-pos", lambda: p.partial_eval(*vals))
            if q is None:
                continue
            out["nontriv"] += 1
            for (ctrl, lay, cfg0), rp in runs:
                if tuple(ctrl[n] for n in all_names[:plen]) != vals:
                    continue
                c2 = {kk: v for kk, v in ctrl.items() if kk not in all_names[:plen]}
                try:
                    rq = interp.run_proc(q._loopir_proc, c2, lay, cfg0)
                except (ValueError, KeyError) as ex:
                    out["bad"].append(dict(base, op="partial_eval-pos", kind="exception", args=str(vals), detail=repr(ex)))
                    break
                if not _cmp(out, rp, rq, "partial_eval-pos", dict(base, op="partial_eval-pos", args=str(vals), input=str(ctrl))):
                    break

    # ------------------------------------------------------------- transpose
    for i, a in enumerate(ir.args):
        if a.type.is_numeric() and a.type.is_tensor_or_window() and len(a.type.shape()) == 2:
            nm = str(a.name)
            q = attempt("transpose", lambda: p.transpose(p.args()[i]))
            if q is None:
                continue
            out["nontriv"] += 1
            for (ctrl, lay, cfg0), rp in runs:
                if lay.get(nm, "dense") != "dense":
                    continue
                # shape of a under this valuation
                env = {}
                it = interp.Interp()
                for fa in ir.args:
                    if not fa.type.is_numeric():
                        env[fa.name] = ctrl[str(fa.name)]
                shp = [it.ev(h, env) for h in a.type.shape()]
                m, n = shp

                def data(name, flat, nm=nm, m=m, n=n):
                    if name == nm:
                        jj, ii = divmod(flat, m)  # transposed layout [n, m]
                        return Poly.atom(("in", name, ii * n + jj))
                    return interp.sym_data(name, flat)

                try:
                    rq = interp.run_proc(q._loopir_proc, ctrl, lay, cfg0, data=data)
                except (ValueError, KeyError) as ex:
                    out["bad"].append(dict(base, op="transpose", kind="exception", arg=nm, detail=repr(ex)))
                    break
                if rp.abort or rp.mon:
                    continue
                ok = True
                for name, cells in rp.outs.items():
                    qc = rq.outs.get(name)
                    if qc is None or len(qc) != len(cells):
                        ok = False
                        break
                    for flat, c in enumerate(cells):
                        if name == nm:
                            ii, jj = divmod(flat, n)
                            c2 = qc[jj * m + ii]
                        else:
                            c2 = qc[flat]
                        if c is not None and c.has_undef():
                            continue
                        if c != c2:
                            ok = False
                            break
                    if not ok:
                        break
                if not ok or rq.abort:
                    out["bad"].append(dict(base, op="transpose", kind="value-mismatch", arg=nm, input=str(ctrl), after=str(q)))
                    break

    # ---------------------------------------------------------- add_assertion
    conds = []
    for a in ctrl_args:
        nm = str(a.name)
        if isinstance(a.type, T.Size):
            conds += [f"{nm} > 1", f"{nm} <= 2", f"{nm} % 2 == 0"]
        elif isinstance(a.type, T.Index):
            conds += [f"{nm} >= 0", f"{nm} < 1"]
    for c in conds:
        q = attempt("add_assertion", lambda: p.add_assertion(c))
        if q is None:
            continue
        out["nontriv"] += 1
        for (ctrl, lay, cfg0), rp in runs:
            holds = bool(eval(c.replace("/", "//"), {}, dict(ctrl)))
            try:
                rq = interp.run_proc(q._loopir_proc, ctrl, lay, cfg0)
                accepted = True
            except ValueError:
                accepted = False
            if accepted != holds:
                out["bad"].append(dict(base, op="add_assertion", kind="domain", cond=c, input=str(ctrl), accepted=accepted))
                break
            if accepted and not _cmp(out, rp, rq, "add_assertion", dict(base, op="add_assertion", cond=c, input=str(ctrl))):
                break

    # ------------------------------------------------ semantics-neutral utilities
    neutral = [("rename", lambda: S.rename(p, "other_name")),
               ("make_instr", lambda: S.make_instr(p, "do_it({n});", "#include <x.h>"))]
    for i, a in enumerate(ir.args):
        if a.type.is_numeric():
            c = p.args()[i]
            for pr in ("f64", "f32", "i8", "i32", "R"):
                neutral.append((f"set_precision-arg-{pr}", lambda c=c, pr=pr: S.set_precision(p, c, pr)))
            for mem in ("DRAM_STATIC", "DRAM_STACK", "AVX2"):
                neutral.append((f"set_memory-arg-{mem}", lambda c=c, mem=mem: S.set_memory(p, c, ns[mem])))
            if a.type.is_tensor_or_window():
                neutral.append(("set_window-arg", lambda c=c, a=a: S.set_window(p, c, not a.type.is_win())))
    for path, s in irx.all_stmts(ir):
        from vf.menus import resolve, N

        if isinstance(s, LoopIR.Alloc):
            c = resolve(N(path), p, ns)
            for pr in ("f64", "i8", "R"):
                neutral.append((f"set_precision-alloc-{pr}", lambda c=c, pr=pr: S.set_precision(p, c, pr)))
            for mem in ("DRAM_STATIC", "DRAM_STACK", "AVX2"):
                neutral.append((f"set_memory-alloc-{mem}", lambda c=c, mem=mem: S.set_memory(p, c, ns[mem])))
        if isinstance(s, LoopIR.For):
            c = resolve(N(path), p, ns)
            neutral.append(("parallelize_loop", lambda c=c: S.parallelize_loop(p, c)))
    for label, fn in neutral:
        q = attempt(label, fn)
        if q is None:
            continue
        out["nontriv"] += 1
        for (ctrl, lay, cfg0), rp in runs:
            try:
                rq = interp.run_proc(q._loopir_proc, ctrl, lay, cfg0, monitors=False)
            except (ValueError, KeyError) as ex:
                out["bad"].append(dict(base, op=label, kind="exception", detail=repr(ex)))
                break
            if not _cmp(out, rp, rq, label, dict(base, op=label, input=str(ctrl), after=str(q))):
                break
    return out


def run(rep):
    names = [s.name for s in seeds.SEEDS]
    tot = nontriv = vac = refused = 0
    for out in par.pmap(run_seed, names):
        tot += out["n"]
        nontriv += out["nontriv"]
        vac += out["vacuous"]
        refused += out["refused"]
        for smp in out["samples"]:
            rep.sample(smp)
        for b in out["bad"]:
            rep.violation({"oracle": "utility", "op": b.get("op"), "kind": b.get("kind"), "seed": b.get("seed")}, b)
    rep.set("evaluations", tot)
    rep.set("distinct_nontrivial", nontriv)
    rep.set("refused", refused)
    rep.set("vacuous_valuations", vac)
    rep.set("exhaustive", True)
    rep.set("rule", "every seed x {partial_eval over every subset of control arguments and every value tuple of the control domain "
                    "(keyword) and every signature prefix (positional); transpose of every 2-D argument; add_assertion over the "
                    "condition alphabet; rename; make_instr; set_precision/memory/window on every buffer x value; parallelize_loop "
                    "on every loop}; non-trivial = utility returned a procedure")


def replay(art):
    print(json.dumps(art, indent=1, default=str)[:3000])
    return 1
