"""C06 -- forwarded cursors denote the same code or are invalid."""
import json

from vf import explore, menus, oracles, seeds, irx, plans
from vf.oracles import BaseOracle
from vf.checks.c01 import fill_evidence, seed_list, replay  # noqa


class Oracle(BaseOracle):
    def after(self, ev, q, exc, outcome):
        if q is None:
            return
        self.stat("checked_transitions")
        chain = self.st.chain
        # edge level (p -> q) and chain level (every ancestor -> q)
        for k, src in enumerate(reversed(chain)):
            level = "edge" if k == 0 else "chain"
            found = []

            def report(kind, detail):
                found.append((kind, detail))

            try:
                n_ok, n_inv = oracles.forward_check(src, q, report, between=chain[len(chain) - k:])
            except Exception as ex:
                self.res["errors"].append(f"forward_check crashed: {type(ex).__name__}: {ex}")
                continue
            self.stat("cursors_forwarded_ok", n_ok)
            self.stat("cursors_invalidated", n_inv)
            for kind, detail in found[:3]:
                ck = "block" if "block" in detail else ("gap" if "gap" in detail else "stmt")
                # events between src and q (chain level: an earlier step's forwarding is part of the chain)
                between_evs = list(self.st.hist[len(chain) - 1 - k:]) + [ev]
                via_guard = any(e["op"] == "add_loop" and len(e.get("a", [])) >= 4 and e["a"][3] is True for e in between_evs)
                self.violation({"oracle": "forward", "kind": kind, "op": ev["op"], "level": level, "cursor_kind": ck,
                                "exc": str(detail.get("exc", "-")).split(":")[0], "via_add_loop_guard": via_guard,
                                "seed": self.st.seed.name, "depth": len(self.st.hist) + 1,
                                "args": json.dumps(ev.get("a", []), sort_keys=True)[:200]},
                               {"event": ev, "detail": detail, "level": level, "src_index": len(chain) - 1 - k,
                                "before": oracles.sstr(src), "after": oracles.sstr(q)})
        # implicit forwarding: op(q, c) == op(q, q.forward(c)) for cursors c of p
        self.implicit(ev, q)

    def implicit(self, ev, q):
        from exo.stdlib import scheduling as S
        from exo.core import internal_cursors as ic
        from exo.API_cursors import lift_cursor

        p = self.st.proc
        root = p._loopir_proc
        n = 0
        for path, N in irx.all_stmts(root):
            if n >= 8:
                break
            c = lift_cursor(ic.Node(root, list(path)), p)
            try:
                c2 = q.forward(c)
            except Exception:
                continue
            n += 1
            r1 = _try(lambda: S.insert_pass(q, c.before()))
            r2 = _try(lambda: S.insert_pass(q, c2.before()))
            self.stat("implicit_forward_pairs")
            if r1 != r2:
                self.violation({"oracle": "implicit-forward", "kind": "differs", "op": ev["op"], "seed": self.st.seed.name,
                                "depth": len(self.st.hist) + 1},
                               {"event": ev, "cursor": [list(x) for x in path], "implicit": r1[:300], "explicit": r2[:300],
                                "before": oracles.sstr(p), "after": oracles.sstr(q)})
                return


def _try(f):
    try:
        return "ok:" + irx.canon(f()._loopir_proc)
    except Exception as ex:
        return "exc:" + type(ex).__name__


def run(rep):
    tier = rep.tier
    st = plans.run_plan(rep, "vf.checks.c06", tier, plans.standard(tier, thorough_cap=400, families=None), safe_only=False, include_unsafe=True)
    fill_evidence(rep, st)
