"""C07 -- scheduling is pure: existing procedures never change."""
import json

from vf import explore, menus, oracles, seeds, irx, plans
from vf.oracles import BaseOracle
from vf.checks.c01 import fill_evidence, seed_list, replay  # noqa


class Oracle(BaseOracle):
    def __init__(self, st, unit, res):
        super().__init__(st, unit, res)
        self.snap()

    def snap(self):
        self.live = self.st.live_procs()
        self.fps = [irx.fingerprint(p._loopir_proc) for p in self.live]
        self.strs = [oracles.sstr(p) for p in self.live]

    def rebind(self, st):
        super().rebind(st)
        self.snap()

    def after(self, ev, q, exc, outcome):
        self.stat("checked_events")
        self.stat("rejected_or_failed_events" if q is None else "successful_events")
        for i, pr in enumerate(self.live):
            fp = irx.fingerprint(pr._loopir_proc)
            if fp != self.fps[i]:
                now = str(pr)
                self.violation({"oracle": "purity", "kind": "procedure-mutated", "op": ev["op"], "seed": self.st.seed.name,
                                "outcome": outcome.split("(")[0], "printed_changed": now != self.strs[i]},
                               {"event": ev, "which": pr.name(), "before": self.strs[i], "after_mutation": now,
                                "outcome": outcome})
                return
        self.stat("procedures_fingerprinted", len(self.live))
        # crash points: re-run the event with SMTSolver.verify raising at its k-th call
        if q is not None and self.unit.get("faults"):
            self.fault_points(ev, q)
        # queries must be pure too
        if q is not None and self.unit.get("queries", True):
            try:
                oracles.sstr(q)
                q.find_all("_")  # pattern query
            except Exception:
                pass
            for i, pr in enumerate(self.live):
                if irx.fingerprint(pr._loopir_proc) != self.fps[i]:
                    self.violation({"oracle": "purity", "kind": "query-mutated", "op": ev["op"], "seed": self.st.seed.name},
                                   {"event": ev, "which": pr.name()})
                    return


class InjectedFault(Exception):
    pass


def _fault_points(self, ev, q):
    from exo.rewrite import new_analysis_core as NAC
    from vf import menus

    orig = NAC.SMTSolver.verify
    calls = {"n": 0, "at": None}

    def counting(slf, e):
        calls["n"] += 1
        if calls["at"] is not None and calls["n"] == calls["at"]:
            raise InjectedFault(f"injected at verify call {calls['at']}")
        return orig(slf, e)

    NAC.SMTSolver.verify = counting
    try:
        # count the calls of a clean run
        calls["n"] = 0
        try:
            menus.apply_event(self.st.proc, ev, self.st.ns)
        except Exception:
            return
        k = calls["n"]
        self.stat("smt_calls_seen", k)
        for at in range(1, min(k, 8) + 1):
            calls["n"] = 0
            calls["at"] = at
            try:
                menus.apply_event(self.st.proc, ev, self.st.ns)
            except InjectedFault:
                pass
            except Exception:
                pass
            calls["at"] = None
            self.stat("faults_injected")
            for i, pr in enumerate(self.live):
                if irx.fingerprint(pr._loopir_proc) != self.fps[i]:
                    self.violation({"oracle": "purity", "kind": "mutated-after-injected-fault", "op": ev["op"], "seed": self.st.seed.name, "at": at},
                                   {"event": ev, "which": pr.name(), "fault_at_call": at})
                    return
            # the same operation re-run without the fault must give the same result (no poisoned caches)
            calls["n"] = 0
            try:
                q2 = menus.apply_event(self.st.proc, ev, self.st.ns)
                if irx.canon(q2._loopir_proc) != irx.canon(q._loopir_proc):
                    self.violation({"oracle": "purity", "kind": "result-differs-after-fault", "op": ev["op"], "seed": self.st.seed.name, "at": at},
                                   {"event": ev, "fault_at_call": at, "clean": oracles.sstr(q), "after_fault": str(q2)})
                    return
            except explore.TransitionTimeout:
                # the harness deadline, not a verdict (slow composite operation on a loaded machine)
                self.res["timeouts"] += 1
                raise
            except Exception as ex:
                self.violation({"oracle": "purity", "kind": "fails-after-fault", "op": ev["op"], "seed": self.st.seed.name, "at": at},
                               {"event": ev, "fault_at_call": at, "exc": repr(ex)[:300]})
                return
    finally:
        NAC.SMTSolver.verify = orig


Oracle.fault_points = _fault_points


def run(rep):
    tier = rep.tier
    phases = plans.standard(tier, thorough_cap=400, families=None)
    if tier != "quick":
        for ph in phases:
            ph["extra"] = {"faults": True}
    st = plans.run_plan(rep, "vf.checks.c07", tier, phases, safe_only=False, include_unsafe=True)
    fill_evidence(rep, st)
