"""C07 -- scheduling is pure: existing procedures never change."""
import json

from vf import explore, menus, oracles, seeds, irx
from vf.oracles import BaseOracle
from vf.checks.c01 import fill_evidence, seed_list, replay  # noqa


class Oracle(BaseOracle):
    def __init__(self, st, unit, res):
        super().__init__(st, unit, res)
        self.snap()

    def snap(self):
        self.live = self.st.live_procs()
        self.fps = [irx.fingerprint(p._loopir_proc) for p in self.live]
        self.strs = [str(p) for p in self.live]

    def rebind(self, st):
        super().rebind(st)
        self.snap()

    def after(self, ev, q, exc, outcome):
        self.stat("checked_events")
        self.stat("rejected_or_failed_events" if q is None else "successful_events")
        for i, pr in enumerate(self.live):
            fp = irx.fingerprint(pr._loopir_proc)
            if fp != self.fps[i]:
                now = str(pr)
                self.violation({"oracle": "purity", "kind": "procedure-mutated", "op": ev["op"], "seed": self.st.seed.name,
                                "outcome": outcome.split("(")[0], "printed_changed": now != self.strs[i]},
                               {"event": ev, "which": pr.name(), "before": self.strs[i], "after_mutation": now,
                                "outcome": outcome})
                return
        self.stat("procedures_fingerprinted", len(self.live))
        # queries must be pure too
        if q is not None and self.unit.get("queries", True):
            try:
                str(q)
                q.find_all("_")  # pattern query
            except Exception:
                pass
            for i, pr in enumerate(self.live):
                if irx.fingerprint(pr._loopir_proc) != self.fps[i]:
                    self.violation({"oracle": "purity", "kind": "query-mutated", "op": ev["op"], "seed": self.st.seed.name},
                                   {"event": ev, "which": pr.name()})
                    return


def run(rep):
    tier = rep.tier
    names = seed_list(tier)
    if tier == "quick":
        st = explore.explore(rep, names, "vf.checks.c07", tier, depth=1, root_parts=6, safe_only=False, include_unsafe=True)
    else:
        st = explore.explore(rep, names, "vf.checks.c07", tier, depth=2, root_parts=8, safe_only=False, include_unsafe=True,
                             max_states_per_level=6000, time_budget_s=3000)
    fill_evidence(rep, st)
