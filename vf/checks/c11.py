"""C11 -- provenance tracking (proc_eqv) is a sound congruence.

Exhaustive exploration of all histories of the proc_eqv API up to a depth
bound over a small alphabet; after every step *all* queries are compared with
a per-field graph-closure reference model.  No state merging: the union-find
tree shape is hidden state, so every history is executed on the real module.
"""
import gc
import itertools

from exo.core import proc_eqv as PE

FIELDS = ("a", "b", "c")
STAR = "*"  # a field never mentioned in any modulo-set


class Stub:
    """stand-in for LoopIR.proc: hashable by identity, weak-referenceable"""
    __slots__ = ("n", "__weakref__")

    def __init__(self, n):
        self.n = n

    def __repr__(self):
        return f"P{self.n}"


def reset_impl():
    PE._UF_Unv = PE._UnionFind()
    PE._UF_Strict = PE._UnionFind()
    PE._UF_Unv_key = dict()


class Ref:
    """reference: one undirected graph per field (and one for STAR)"""

    def __init__(self):
        self.n = 0
        self.edges = []  # (i, j, frozenset K)

    def new(self):
        self.n += 1
        return self.n - 1

    def edge(self, i, j, K):
        self.edges.append((i, j, K))

    def comp(self, f):
        par = list(range(self.n))

        def find(x):
            while par[x] != x:
                x = par[x]
            return x

        for i, j, K in self.edges:
            if f == STAR or f not in K:
                a, b = find(i), find(j)
                if a != b:
                    par[a] = b
        return [find(x) for x in range(self.n)]

    def tables(self):
        return {f: self.comp(f) for f in FIELDS + (STAR,)}


def subsets(keys):
    out = []
    for r in range(len(keys) + 1):
        for c in itertools.combinations(keys, r):
            out.append(frozenset(c))
    return out


def events(nprocs, live, keysets, max_procs, max_origins, norigins, assert_sets, allow_gc):
    ev = []
    if nprocs < max_procs and norigins < max_origins:
        ev.append(("new",))
    if nprocs < max_procs:
        for p in live:
            for K in keysets:
                ev.append(("derive", p, K))
    for p in live:
        for q in live:
            if p != q:
                for K in assert_sets:
                    ev.append(("assert", p, q, K))
    if allow_gc:
        for p in live:
            ev.append(("drop", p))
    return ev


def apply_history(hist):
    """execute on the real module + reference; returns (objs, ref)"""
    reset_impl()
    objs = []
    ref = Ref()
    for ev in hist:
        if ev[0] == "new":
            o = Stub(len(objs))
            objs.append(o)
            ref.new()
            PE.decl_new_proc(o)
        elif ev[0] == "derive":
            o = Stub(len(objs))
            src = objs[ev[1]]
            objs.append(o)
            i = ref.new()
            ref.edge(ev[1], i, ev[2])
            PE.derive_proc(src, o, ev[2])
        elif ev[0] == "assert":
            ref.edge(ev[1], ev[2], ev[3])
            PE.assert_eqv_proc(objs[ev[1]], objs[ev[2]], ev[3])
        elif ev[0] == "drop":
            objs[ev[1]] = None
            gc.collect(0)
    return objs, ref


def check_state(objs, ref, query_sets):
    """compare every query with the reference.  returns list of mismatch dicts"""
    tabs = ref.tables()
    bad = []
    live = [i for i, o in enumerate(objs) if o is not None]
    nq = 0
    for i in live:
        for j in live:
            for K in query_sets:
                want = all(tabs[f][i] == tabs[f][j] for f in FIELDS + (STAR,) if f not in K)
                got = PE.check_eqv_proc(objs[i], objs[j], K)
                nq += 1
                if got != want:
                    bad.append({"query": "check_eqv_proc", "p": i, "q": j, "K": sorted(K), "got": got, "want": want})
            is_eqv, keys = PE.get_strictest_eqv_proc(objs[i], objs[j])
            w_eqv = tabs[STAR][i] == tabs[STAR][j]
            w_keys = {f for f in FIELDS if tabs[f][i] != tabs[f][j]} if w_eqv else set()
            nq += 1
            if is_eqv != w_eqv or set(keys) != w_keys:
                bad.append({"query": "get_strictest_eqv_proc", "p": i, "q": j,
                            "got": [is_eqv, sorted(keys)], "want": [w_eqv, sorted(w_keys)]})
    return bad, nq


def hist_json(h):
    return [[e[0]] + [sorted(x) if isinstance(x, frozenset) else x for x in e[1:]] for e in h]


def hist_from_json(j):
    return [tuple(frozenset(x) if isinstance(x, list) else x for x in e) for e in j]


def explore(rep, depth, max_procs, keys, assert_keys, allow_gc, max_origins=2):
    keysets = subsets(keys)
    assert_sets = subsets(assert_keys)
    query_sets = subsets(FIELDS)
    nhist = 0
    ntrans = 0
    nq_total = 0
    outcomes = set()

    def rec(hist, nprocs, live, norigins):
        nonlocal nhist, ntrans, nq_total
        objs, ref = apply_history(hist)
        bad, nq = check_state(objs, ref, query_sets)
        nq_total += nq
        nhist += 1
        tabs = ref.tables()
        outcomes.add(tuple(tuple(tabs[f]) for f in FIELDS + (STAR,)))
        if nhist in (50, 5000, 50000):
            rep.sample({"history": hist_json(hist)})
        for b in bad:
            b2 = dict(b)
            rep.violation({"oracle": "closure", "query": b["query"], "got": str(b["got"]), "want": str(b["want"]),
                           "last": hist[-1][0] if hist else None},
                          {"history": hist_json(hist), "mismatch": b2, "layer": 1})
        if bad or len(hist) >= depth:
            return
        for ev in events(nprocs, live, keysets, max_procs, max_origins, norigins, assert_sets, allow_gc):
            ntrans += 1
            if ev[0] == "new":
                rec(hist + [ev], nprocs + 1, live + [nprocs], norigins + 1)
            elif ev[0] == "derive":
                rec(hist + [ev], nprocs + 1, live + [nprocs], norigins)
            elif ev[0] == "assert":
                rec(hist + [ev], nprocs, live, norigins)
            else:
                rec(hist + [ev], nprocs, [x for x in live if x != ev[1]], norigins)

    rec([("new",)], 1, [0], 1)
    return nhist, ntrans, nq_total, len(outcomes)


# ---------------------------------------------------------------------------
# layer 2: the same through the public API


def layer2(rep, tier):
    """Histories of public-API operations on real Procedures.

    Every decl/derive/assert call the API layer makes is *observed* (the names
    imported into exo.API are wrapped from the outside).  Oracles after each
    step: (1) every query answer equals the per-field closure of the observed
    steps; (2) signature-changing operations (partial_eval, transpose,
    add_assertion) record no step, so their result is never equivalent to
    anything older; (3) semantic cross-check with the reference interpreter:
    whenever two procedures are reported equivalent modulo K, their buffer
    results agree and their final configuration differs only inside K on the
    whole control domain."""
    from vf.exoutil import mkprocs
    from vf import inputs, interp
    from exo.stdlib import scheduling as S
    from exo.core import proc_eqv
    from exo.core.configs import reverse_config_lookup
    import exo.API as API

    reset_impl()
    src = """
@config
class CFGA:
    a: index
    b: index

@proc
def callee(n: size, x: f32[n]):
    for i in seq(0, n):
        x[i] = 0.0

@proc
def k1(n: size, m: size, x: f32[n], y: f32[m, m]):
    CFGA.a = 1
    callee(n, x)
    for i in seq(0, m):
        for j in seq(0, m):
            y[i, j] = 1.0
    pass

@proc
def k2(n: size, x: f32[n]):
    for i in seq(0, n):
        x[i] = 0.0
"""
    log = []
    orig = (API.decl_new_proc, API.derive_proc, API.assert_eqv_proc)

    def w_decl(p):
        log.append(("decl", p))
        return orig[0](p)

    def w_derive(o, n, K=frozenset()):
        log.append(("derive", o, n, frozenset(K)))
        return orig[1](o, n, K)

    def w_assert(a, b, K=frozenset()):
        log.append(("assert", a, b, frozenset(K)))
        return orig[2](a, b, K)

    API.decl_new_proc, API.derive_proc, API.assert_eqv_proc = w_decl, w_derive, w_assert
    try:
        ns = mkprocs(src, tag="c11")
        CFGA = ns["CFGA"]
        k1, k2 = ns["k1"], ns["k2"]
        ka = CFGA._INTERNAL_sym("a")
        kb = CFGA._INTERNAL_sym("b")
        fields = [ka, kb]
        all_cfg = {("CFGA", "a"): CFGA.lookup_type("a"), ("CFGA", "b"): CFGA.lookup_type("b")}

        def has_arg(p, nm):
            return any(str(a.name) == nm for a in p._loopir_proc.args)

        OPS = [
            ("simplify", lambda p: S.simplify(p), "derive"),
            ("rename", lambda p: S.rename(p, p.name() + "r"), "derive"),
            ("insert_pass", lambda p: S.insert_pass(p, p.body()[0].before()), "derive"),
            ("delete_pass", lambda p: S.delete_pass(p), "derive"),
            ("write_config_b", lambda p: S.write_config(p, p.body()[0].before(), CFGA, "b", "2"), "derive"),
            ("write_config_a3", lambda p: S.write_config(p, p.body()[-1].after(), CFGA, "a", "3"), "derive"),
            ("write_config_b_end", lambda p: S.write_config(p, p.body()[-1].after(), CFGA, "b", "0"), "derive"),
            ("delete_config_a", lambda p: S.delete_config(p, p.find("CFGA.a = _")), "derive"),
            ("delete_config_b", lambda p: S.delete_config(p, p.find("CFGA.b = _")), "derive"),
            ("partial_eval", lambda p: p.partial_eval(n=2) if has_arg(p, "n") else None, "new"),
            ("transpose", lambda p: p.transpose(p.find_alloc_or_arg("y")) if has_arg(p, "y") else None, "new"),
            ("add_assertion", lambda p: p.add_assertion("n > 1") if has_arg(p, "n") else None, "new"),
        ]
        depth = 2 if tier == "quick" else 3
        st = {"states": 0, "trans": 0, "q": 0, "sem": 0}
        Ks = [frozenset(), frozenset([ka]), frozenset([kb]), frozenset([ka, kb])]

        node_of = {}  # id(loopir proc) -> node number (log keeps the objects alive)

        def node(ir):
            k = id(ir)
            if k not in node_of:
                node_of[k] = len(node_of)
            return node_of[k]

        def closure(procs, edges, f):
            par = {}

            def find(x):
                while par.setdefault(x, x) != x:
                    x = par[x]
                return x

            for i, j, K in edges:
                if f is None or f not in K:
                    a, b = find(i), find(j)
                    if a != b:
                        par[a] = b
            return [find(node(p._loopir_proc)) for p in procs]

        runs_cache = {}

        def runs_of(p):
            k = pstr(p)
            if k not in runs_cache:
                runs_cache[k] = (p, inputs.run_all(p._loopir_proc, dict(sizes=(1, 2), cfg_vals=(0, 1), extra_cfg=all_cfg)))
            return runs_cache[k][1]

        cmp_cache = {}
        str_cache = {}

        def pstr(p):
            k = id(p._loopir_proc)
            if k not in str_cache:
                str_cache[k] = (p, str(p))
            return str_cache[k][1]

        def check(procs, edges, hist, pairs):
            tabs = {f: closure(procs, edges, f) for f in fields + [None]}
            for i, j in pairs:
                pi, pj = procs[i]._loopir_proc, procs[j]._loopir_proc
                for K in Ks:
                    want = all(tabs[f][i] == tabs[f][j] for f in fields + [None] if f not in K)
                    got = proc_eqv.check_eqv_proc(pi, pj, K)
                    st["q"] += 1
                    if got != want:
                        rep.violation({"oracle": "closure-api", "got": got, "want": want, "last": hist[-1][1]},
                                      {"layer": 2, "history": hist, "p": i, "q": j, "K": [str(k) for k in K]})
                is_eqv, keys = proc_eqv.get_strictest_eqv_proc(pi, pj)
                if is_eqv and i != j:
                    # semantic cross-check
                    ex = [(reverse_config_lookup(k)[0].name(), reverse_config_lookup(k)[1]) for k in keys]
                    ck = (pstr(procs[i]), pstr(procs[j]), tuple(sorted(ex)))
                    if ck in cmp_cache:
                        continue
                    cmp_cache[ck] = True
                    ri, rj = runs_of(procs[i]), runs_of(procs[j])
                    if len(ri) != len(rj):
                        rep.violation({"oracle": "semantic-api", "kind": "domain", "last": hist[-1][1]},
                                      {"layer": 2, "history": hist, "p": i, "q": j})
                        continue
                    for (v, a), (_, b) in zip(ri, rj):
                        st["sem"] += 1
                        d = inputs.compare_runs(a, b, exempt_cfg=ex)
                        if d not in (None, "vacuous"):
                            rep.violation({"oracle": "semantic-api", "kind": d["kind"], "last": hist[-1][1]},
                                          {"layer": 2, "history": hist, "p": i, "q": j, "diff": d, "input": str(v),
                                           "reported_keys": [str(k) for k in keys]})
                            break

        def rec(procs, edges, hist, d, pairs):
            st["states"] += 1
            check(procs, edges, hist, pairs)
            if st["states"] in (10, 500):
                rep.sample({"api_history": hist})
            if d >= depth:
                return
            for pi in range(len(procs)):
                for label, fn, kind in OPS:
                    mark = len(log)
                    try:
                        q = fn(procs[pi])
                    except Exception:
                        continue  # operation refused: not a transition
                    if q is None:
                        continue
                    st["trans"] += 1
                    rec_steps = log[mark:]
                    e2 = list(edges)
                    for r in rec_steps:
                        if r[0] in ("derive", "assert"):
                            if kind == "new":
                                rep.violation({"oracle": "sig-change-records-step", "op": label},
                                              {"layer": 2, "history": hist + [[pi, label]]})
                            e2.append((node(r[1]), node(r[2]), r[3]))
                    n = len(procs)
                    rec(procs + [q], e2, hist + [[pi, label]], d + 1,
                        [(i, n) for i in range(n + 1)] + [(n, i) for i in range(n)])

        for seedp, other in ((k1, k2), (k2, k1)):
            rec([seedp, other], [], [["seed", seedp.name()]], 0, [(0, 0), (0, 1), (1, 0), (1, 1)])
    finally:
        API.decl_new_proc, API.derive_proc, API.assert_eqv_proc = orig
    rep.set("layer2_semantic_runs", st["sem"])
    return st["states"], st["trans"], st["q"]


def run(rep):
    tier = rep.tier
    if tier == "quick":
        cfgs = [dict(depth=5, max_procs=4, keys=("a", "b"), assert_keys=("a",), allow_gc=False),
                dict(depth=4, max_procs=3, keys=("a", "c"), assert_keys=("a", "c"), allow_gc=True)]
    else:
        cfgs = [dict(depth=5, max_procs=4, keys=("a", "b"), assert_keys=("a",), allow_gc=False),
                dict(depth=5, max_procs=3, keys=("a", "b", "c"), assert_keys=("a", "c"), allow_gc=True),
                dict(depth=4, max_procs=4, keys=("a", "b", "c"), assert_keys=("a", "b", "c"), allow_gc=True)]
    tot_h = tot_t = tot_q = 0
    outc = 0
    for c in cfgs:
        h, t, q, o = explore(rep, **c)
        tot_h += h
        tot_t += t
        tot_q += q
        outc += o
    s2, t2, q2 = layer2(rep, tier)
    reset_impl_after()
    rep.set("states", tot_h + s2)
    rep.set("transitions", tot_t + t2)
    rep.set("traces_validated_against_impl", tot_h + s2)
    rep.set("queries_checked", tot_q + q2)
    rep.set("distinct_partitions_observed", outc)
    rep.set("layer1_histories", tot_h)
    rep.set("layer2_api_states", s2)
    rep.set("bounds", [{k: (list(v) if isinstance(v, tuple) else v) for k, v in c.items()} for c in cfgs])
    rep.set("exhaustive", True)
    rep.set("rule", "every history of {new, derive(p,K), assert(p,q,K), drop+gc} up to the depth bound; no state merging; "
                    "every history is executed on the real proc_eqv module (state reset per history) and all pairwise "
                    "queries for all K are compared with per-field graph closure")
    rep.assumptions.append("per-field reading of 'modulo K' (the lattice law documented in proc_eqv.py)")


def reset_impl_after():
    pass


def replay(art):
    if art.get("layer") != 1:
        print("layer-2 artefact: history of API ops:", art.get("history"))
        return 0
    hist = hist_from_json(art["history"])
    objs, ref = apply_history(hist)
    bad, _ = check_state(objs, ref, subsets(FIELDS))
    for b in bad:
        print("MISMATCH", b)
    print("history:", art["history"])
    return 1 if bad else 0
