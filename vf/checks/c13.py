"""C13 -- range analysis bounds contain every attainable value.

Bounded-exhaustive: all index expressions up to a node bound x all variable
range environments; the reported range is compared with brute-force integer
evaluation over every valuation inside the stated intervals."""
import itertools

from vf import par
from vf.gen import exprs as GE

TRUNC = 6  # unbounded sides are explored this far beyond the finite end / around 0


def var_domain(rng, absent_dom=(-3, -2, -1, 0, 1, 2, 3)):
    if rng == "absent":
        return list(absent_dom)
    lo, hi = rng
    if lo is None and hi is None:
        return list(range(-TRUNC, TRUNC + 1))
    if lo is None:
        return list(range(hi - TRUNC, hi + 1))
    if hi is None:
        return list(range(lo, lo + TRUNC + 1))
    return list(range(lo, hi + 1))


ENV_CHOICES_Q = [(0, 3), (-2, 1), (1, 1), (0, None), (None, 2), (None, None), "absent"]
ENV_CHOICES_T = ENV_CHOICES_Q + [(-5, -2), (2, 7), (-1, None), (None, -1), (0, 0)]


def check_chunk(job):
    from exo.core.prelude import Sym
    from exo.rewrite import range_analysis as RA

    es, env_choices, tier = job
    syms = {"i": Sym("i"), "j": Sym("j")}
    out = {"n": 0, "nontriv": 0, "bad": [], "distinct_results": set()}
    for e in es:
        vs = sorted(GE.vars_of(e))
        ir = GE.to_loopir(e, syms)
        for combo in itertools.product(env_choices, repeat=len(vs)):
            env = {}
            for v, r in zip(vs, combo):
                if r != "absent":
                    env[syms[v]] = r
            out["n"] += 1
            try:
                res = RA.index_range_analysis(ir, env)
                cb = RA.constant_bound(ir, env)
            except Exception as ex:
                # refusing to analyse is not unsound
                out.setdefault("raised", 0)
                out["raised"] += 1
                continue
            doms = [var_domain(r) for r in combo]
            if isinstance(res, int):
                base, lo, hi = None, res, res
            else:
                base, lo, hi = res.base, res.lo, res.hi
            if lo is not None or hi is not None:
                out["nontriv"] += 1
            out["distinct_results"].add((str(base), lo, hi))
            for vals in itertools.product(*doms):
                ev = dict(zip(vs, vals))
                v = GE.evaluate(e, ev)
                b = 0 if base is None else GE.eval_loopir(base, {syms[k]: x for k, x in ev.items()})
                ok = (lo is None or v >= b + lo) and (hi is None or v <= b + hi)
                if ok and cb is not None and cb != (None, None) and (base is None or RA.is_zero(base)):
                    clo, chi = cb
                    ok = (clo is None or v >= clo) and (chi is None or v <= chi)
                if not ok:
                    out["bad"].append({"expr": GE.to_src(e), "env": {k: (list(r) if r != "absent" else r) for k, r in zip(vs, combo)},
                                       "valuation": ev, "value": v, "reported": [str(base), lo, hi], "constant_bound": list(cb) if cb else None})
                    break
    out["distinct_results"] = len(out["distinct_results"])
    return out


def check_or_join(rep, tier):
    """IndexRange.__or__ must contain both operands"""
    from exo.rewrite import range_analysis as RA
    from exo.core.prelude import Sym

    syms = {"i": Sym("i"), "j": Sym("j")}
    bases = [("c", 0), ("v", "i"), ("*", ("c", 2), ("v", "i")), ("v", "j")]
    bnds = [(0, 3), (-2, 1), (None, 2), (1, None), (None, None), (2, 2)]
    n = 0
    for (b1, r1), (b2, r2) in itertools.product(itertools.product(bases, bnds), repeat=2):
        R1 = RA.IndexRange(GE.to_loopir(b1, syms) if b1 != ("c", 0) else RA.zero(), r1[0], r1[1])
        R2 = RA.IndexRange(GE.to_loopir(b2, syms) if b2 != ("c", 0) else RA.zero(), r2[0], r2[1])
        try:
            J = R1 | R2
        except Exception:
            continue
        n += 1
        for i, j in itertools.product(range(-3, 4), repeat=2):
            env = {syms["i"]: i, syms["j"]: j}
            jb = GE.eval_loopir(J.base, env)
            for R in (R1, R2):
                rb = GE.eval_loopir(R.base, env)
                for d in var_domain((R.lo, R.hi)):
                    v = rb + d
                    if (J.lo is not None and v < jb + J.lo) or (J.hi is not None and v > jb + J.hi):
                        rep.violation({"oracle": "join", "kind": "not-contained", "api": "IndexRange.__or__"},
                                      {"r1": str(R1), "r2": str(R2), "join": str(J), "i": i, "j": j, "value": v})
                        break
    return n


def check_env_api(rep, tier):
    """IndexRangeEnvironment on real procedures: argument ranges derived from
    assertions (fast=False) and check_expr_bound answers vs brute force"""
    from exo.rewrite import range_analysis as RA
    from vf.exoutil import mkproc

    n = 0
    preds = ["n <= 8", "n < 5", "n >= 3", "n > 2 and n <= 6", "n % 4 == 0", "n == 4", "2 * n <= 9", "n / 2 <= 3", "n <= 8 and n % 2 == 0"]
    for pr in preds:
        src = f"""
@proc
def rp(n: size, x: f32[n]):
    assert {pr}
    for i in seq(0, n):
        x[i] = 0.0
"""
        try:
            p = mkproc(src, tag="c13")
        except Exception:
            continue
        ir = p._loopir_proc
        envq = RA.IndexRangeEnvironment(ir, fast=False)
        nsym = ir.args[0].name
        lo, hi = envq.env[nsym]
        n += 1
        for nv in range(1, 41):
            if eval(pr.replace("/", "//"), {"n": nv}):
                if (lo is not None and nv < lo) or (hi is not None and nv > hi):
                    rep.violation({"oracle": "arg-range", "kind": "not-contained", "api": "arg_range_analysis", "pred": pr},
                                  {"pred": pr, "n": nv, "reported": [lo, hi]})
                    break
        # check_expr_bound answers inside the loop
        loop = ir.body[0]
        envq.enter_scope()
        envq.add_loop_iter(loop.iter, loop.lo, loop.hi)
        syms = {"i": loop.iter, "n": nsym}
        for e1 in GE.gen_exprs(["i", "n"], [0, 1, 4], [2, 4], 3):
            x1 = GE.to_loopir(e1, syms)
            for op in ("<", "<=", "=="):
                for c in (0, 4, 8, 9):
                    from exo.core.LoopIR import LoopIR, T

                    x2 = LoopIR.Const(c, T.int, x1.srcinfo)
                    try:
                        ans = envq.check_expr_bound(x1, op, x2)
                    except Exception:
                        continue
                    n += 1
                    if ans:
                        for nv in range(1, 41):
                            if not eval(pr.replace("/", "//"), {"n": nv}):
                                continue
                            for iv in range(0, nv):
                                v = GE.evaluate(e1, {"i": iv, "n": nv})
                                good = v < c if op == "<" else (v <= c if op == "<=" else v == c)
                                if not good:
                                    rep.violation({"oracle": "check_expr_bound", "kind": "unsound-true", "api": "check_expr_bound"},
                                                  {"pred": pr, "expr": GE.to_src(e1), "op": op, "rhs": c, "n": nv, "i": iv, "value": v})
                                    break
                            else:
                                continue
                            break
    return n


def check_user_api(rep, tier):
    """infer_range / bounds_inference through the public stdlib wrappers"""
    from exo.stdlib import range_analysis as URA
    from vf.exoutil import mkproc
    from vf import interp, inputs

    n = 0
    idxs = ["i", "i + 1", "2 * i", "i + j", "i - j + 3", "3 - i", "i / 2", "i % 2 + j", "4 * i + j", "(i + j) / 2", "n - 1 - i"]
    for ix in idxs:
        src = f"""
@proc
def up(n: size, x: f32[64]):
    assert n <= 8
    for i in seq(0, 4):
        for j in seq(1, 4):
            x[{ix} + 8] = 1.0
"""
        try:
            p = mkproc(src, tag="c13u")
        except Exception:
            continue
        for scope_name in ("j", "i"):
            loop = p.find_loop(scope_name)
            w = p.find("x[_] = _")
            try:
                r = URA.infer_range(w.idx()[0], loop)
            except Exception:
                continue
            n += 1
            # brute force: values of the index over the iterations of `scope` for every outer valuation
            for nv in range(1, 9):
                outer = [None] if scope_name == "i" else list(range(0, 4))
                for iv_fixed in outer:
                    vals = []
                    for iv in ([iv_fixed] if iv_fixed is not None else range(0, 4)):
                        for jv in range(1, 4):
                            vals.append(eval(ix.replace("/", "//"), {"i": iv, "j": jv, "n": nv}) + 8)
                    env = {}
                    for a in p._loopir_proc.args:
                        if str(a.name) == "n":
                            env[a.name] = nv
                    iloop = p._loopir_proc.body[0]
                    if iv_fixed is not None:
                        env[iloop.iter] = iv_fixed
                    try:
                        b = GE.eval_loopir(r.base, env)
                    except KeyError:
                        continue
                    for v in vals:
                        if (r.lo is not None and v < b + r.lo) or (r.hi is not None and v > b + r.hi):
                            rep.violation({"oracle": "infer_range", "kind": "not-contained", "api": "infer_range", "index": ix, "scope": scope_name},
                                          {"index": ix, "scope": scope_name, "n": nv, "i": iv_fixed, "value": v, "reported": str(r)})
                            break
    return n


def run(rep):
    tier = rep.tier
    if tier == "quick":
        es = GE.gen_exprs(["i", "j"], [0, 1, 2, -1, 3], [2, 3, 4], 5)
        envs = ENV_CHOICES_Q
    else:
        es = GE.gen_exprs(["i", "j"], [0, 1, 2, -1, 3], [2, 3, 4], 6)
        envs = ENV_CHOICES_T
    if rep.seed:
        import random

        random.Random(rep.seed).shuffle(es)
    jobs = [(c, envs, tier) for c in par.chunks(es, 64)]
    tot = nontriv = raised = distinct = 0
    for out in par.pmap(check_chunk, jobs):
        tot += out["n"]
        nontriv += out["nontriv"]
        raised += out.get("raised", 0)
        distinct += out["distinct_results"]
        for b in out["bad"]:
            rep.violation({"oracle": "range", "kind": "not-contained", "api": "index_range_analysis", "expr": b["expr"], "env": str(b["env"])}, b)
    n_or = check_or_join(rep, tier)
    n_env = check_env_api(rep, tier)
    n_usr = check_user_api(rep, tier)
    rep.set("evaluations", tot + n_or + n_env + n_usr)
    rep.set("distinct_nontrivial", nontriv)
    rep.set("expressions", len(es))
    rep.set("analysis_raised", raised)
    rep.set("distinct_reported_ranges_per_chunk_sum", distinct)
    rep.set("join_pairs", n_or)
    rep.set("env_api_queries", n_env)
    rep.set("user_api_queries", n_usr)
    rep.set("exhaustive", True)
    rep.set("rule", f"all quasi-affine expressions with <= {5 if tier == 'quick' else 6} nodes over 2 variables x all range environments per variable "
                    f"({len(envs)} choices incl. half-open, unknown, absent); non-trivial = analysis returned at least one finite bound; "
                    "oracle = brute-force evaluation of every integer valuation inside the stated intervals (unbounded sides truncated at 6)")
    rep.sample({"expr": GE.to_src(es[len(es) // 2]), "envs": [str(e) for e in envs[:4]]})
    rep.sample({"expr": GE.to_src(es[-1])})
    rep.assumptions.append("unbounded sides of an interval are explored up to 6 beyond the finite end")


def replay(art):
    import json

    print(json.dumps(art, indent=1, default=str))
    return 1
