"""C18 -- scheduling and compilation are deterministic.

Scripted sessions are executed in FRESH interpreters over a grid of
PYTHONHASHSEED values, Sym-counter offsets, prior process histories, definition
orders of unrelated procedures and salted hashing of Syms/procs (so set and dict
iteration order is owned by the harness); all outputs (printed procedures, C,
header) must be byte-identical across the grid."""
import itertools
import json
import os
import subprocess
import sys

from vf import par

HASHSEEDS = ["0", "1", "2", "3", "7", "42", "1000", "random"]
OFFSETS = [0, 1, 997]
HISTORIES = ["none", "defs", "schedules", "same-first"]
SALTS = [0, 1, 2, 3]
ORDERS = [[0, 1, 2], [2, 1, 0], [1, 0, 2], [1, 2, 0]]


def variants(tier):
    base = {"hashseed": "0", "sym_offset": 0, "history": "none", "salt": 0, "order": [0, 1, 2]}
    out = [dict(base)]
    if tier == "quick":
        for h in HASHSEEDS[1:]:
            out.append(dict(base, hashseed=h))
        for o in OFFSETS[1:]:
            out.append(dict(base, sym_offset=o))
        for hi in HISTORIES[1:]:
            out.append(dict(base, history=hi))
        for s in SALTS[1:]:
            out.append(dict(base, salt=s))
        for od in ORDERS[1:]:
            out.append(dict(base, history="defs", order=od))
        # a few pairwise corners
        out.append({"hashseed": "random", "sym_offset": 997, "history": "schedules", "salt": 3, "order": [2, 1, 0]})
        out.append({"hashseed": "7", "sym_offset": 1, "history": "same-first", "salt": 2, "order": [1, 0, 2]})
    else:
        # every axis exhaustively around the default (as in the quick tier) ...
        out = variants("quick")
        # ... plus the full product of a sub-grid (4 hash seeds x 2 counter offsets x 4 histories x 2 salts)
        for h, o, hi, s in itertools.product(["0", "1", "42", "random"], [0, 997], HISTORIES, [0, 3]):
            v = {"hashseed": h, "sym_offset": o, "history": hi, "salt": s, "order": ORDERS[(len(out)) % len(ORDERS)]}
            if v not in out:
                out.append(v)
    return out


def run_one(job):
    name, v = job
    env = dict(os.environ)
    if v["hashseed"] == "random":
        env.pop("PYTHONHASHSEED", None)
        env["PYTHONHASHSEED"] = "random"
    else:
        env["PYTHONHASHSEED"] = v["hashseed"]
    here = os.path.dirname(os.path.dirname(os.path.dirname(os.path.abspath(__file__))))
    env["PYTHONPATH"] = here + ":" + os.environ.get("VF_REPO_SRC", "/repo/src")
    try:
        r = subprocess.run([sys.executable, "-m", "vf.c18_runner", name, json.dumps(v)], capture_output=True, text=True, env=env, cwd=here, timeout=900)
    except subprocess.TimeoutExpired:
        return name, v, None, "timeout"
    if r.returncode != 0:
        return name, v, None, r.stderr[-1500:]
    try:
        return name, v, json.loads(r.stdout), None
    except Exception:
        return name, v, None, "unparsable output: " + r.stdout[-500:]


def run(rep):
    from vf import sessions

    tier = rep.tier
    names = sorted(sessions.SESSIONS)
    vs = variants(tier)
    jobs = [(n, v) for n in names for v in vs]
    results = {}
    errors = 0
    for name, v, outs, err in par.pmap(run_one, jobs):
        if outs is None:
            errors += 1
            # a session that fails identically in every variant is a harness problem, not nondeterminism
            results.setdefault(name, []).append((v, ("ERROR", err)))
            continue
        results.setdefault(name, []).append((v, outs))
    nruns = 0
    distinct_outputs = 0
    for name, rs in results.items():
        ref_v, ref = rs[0]
        if isinstance(ref, tuple) and ref[0] == "ERROR":
            rep.harness_error(f"session {name} failed in the base variant: {ref[1][-300:]}")
            continue
        distinct_outputs += len(ref)
        for v, outs in rs[1:]:
            nruns += 1
            if isinstance(outs, tuple) and outs[0] == "ERROR":
                rep.violation({"oracle": "determinism", "kind": "run-fails-in-variant", "session": name, "axis": axis_of(v)},
                              {"session": name, "variant": v, "error": outs[1]})
                continue
            for (l1, t1), (l2, t2) in zip(ref, outs):
                if l1 != l2 or t1 != t2:
                    rep.violation({"oracle": "determinism", "kind": "output-differs", "session": name, "label": l1, "axis": axis_of(v)},
                                  {"session": name, "variant": v, "base_variant": ref_v, "label": l1, "diff": first_diff(t1, t2)})
                    break
    rep.set("evaluations", nruns + len(results))
    rep.set("distinct_nontrivial", len(results))
    rep.set("sessions", names)
    rep.set("variants_per_session", len(vs))
    rep.set("outputs_compared_per_run", distinct_outputs)
    rep.set("exhaustive", tier != "quick")
    rep.set("rule", "sessions x variants; quick = each axis exhaustively around the default + pairwise corners; thorough = full product "
                    "hashseed(8) x sym offset(3) x history(4) x salt(4); non-trivial = sessions whose outputs were compared byte for byte")
    rep.sample({"session": names[0], "variant": vs[-1]})
    rep.assumptions.append("PYTHONHASHSEED values are a finite sample; salted Sym/proc hashing removes the dependence on it for the set-valued intermediates")


def axis_of(v):
    ax = []
    if v["hashseed"] != "0":
        ax.append("hashseed")
    if v["sym_offset"]:
        ax.append("sym_offset")
    if v["history"] != "none":
        ax.append("history")
    if v["salt"]:
        ax.append("salt")
    return "+".join(ax) or "base"


def first_diff(a, b):
    la, lb = a.split("\n"), b.split("\n")
    for i, (x, y) in enumerate(zip(la, lb)):
        if x != y:
            return {"line": i, "base": x[:300], "variant": y[:300]}
    return {"lines": [len(la), len(lb)]}


def replay(art):
    print(json.dumps(art, indent=1, default=str)[:3000])
    return 1
