"""C01 -- scheduling rewrites preserve semantics.

Explorer over seeds x safe transition alphabet; every transition that returns a
procedure is executed (source and result) by the reference interpreter on the
whole control domain with symbolic data."""
import json

from vf import explore, menus, oracles, seeds, findings, plans
from vf.oracles import BaseOracle


class Oracle(BaseOracle):
    def after(self, ev, q, exc, outcome):
        if q is None:
            return
        p = self.st.proc
        if not hasattr(self, "_src_ok"):
            from vf import wf

            self._src_ok = not wf.validate(p._loopir_proc)
        if not self._src_ok:
            # successors of an ill-formed state (reached through a recorded C04 finding) cannot be judged
            self.stat("source_already_illformed")
            return
        is_eqv, exempt = oracles.reported_cfg_keys(p, q)
        if not is_eqv:
            self.stat("not_reported_equivalent")
            exempt = None
        d = oracles.equiv_check(self, ev, p, q, self.p_runs(), exempt or ())
        self.stat("checked_transitions")
        if d is not None:
            sig = {"oracle": "equiv", "kind": d["kind"], "op": ev["op"], "seed": self.st.seed.name,
                   "depth": len(self.st.hist) + 1}
            sig["cause"] = findings.cause_of(ev, p, q, d["kind"], d)
            sig["where"] = findings.where_of(ev, p)
            sig.update(feature_tags(ev, self.st, d))
            art = {"event": ev, "diff": {k: (oracles.jsonable_val(v) if k == "input" else v) for k, v in d.items()},
                   "before": oracles.sstr(p), "after": oracles.sstr(q), "reported_cfg": [list(x) for x in (exempt or [])]}
            self.violation(sig, art)


def feature_tags(ev, st, d):
    """narrow structural features used by known-finding triggers"""
    tags = {}
    tags["args"] = json.dumps(ev.get("a", []), sort_keys=True)[:300]
    return tags


QUICK_SEEDS = None


def seed_list(tier):
    names = [s.name for s in seeds.SEEDS]
    return names


def run(rep):
    tier = rep.tier
    st = plans.run_plan(rep, "vf.checks.c01", tier, plans.standard(tier))
    fill_evidence(rep, st)


def fill_evidence(rep, st):
    rep.set("states", st["states"])
    rep.set("transitions", st["transitions"])
    rep.set("traces_validated_against_impl", st["transitions"])
    rep.set("distinct_states_seen", st.get("distinct_states_seen"))
    rep.set("outcomes", st["outcomes"])
    rep.set("per_op_attempted_returned", st["per_op"])
    rep.set("oracle_stats", st["oracle_stats"])
    rep.set("levels", st["levels"])
    rep.set("phases", st.get("phases"))
    rep.set("timeouts", st["timeouts"])
    rep.set("cap_hit", st["cap_hit"])
    rep.set("exhaustive", st["cap_hit"] is None)
    rep.set("rule", "BFS from every seed over the complete menu of (primitive, argument) events; states de-duplicated "
                    "by alpha-canonical form; every model transition IS an execution of the real primitive")
    for op, (att, ret) in sorted(st["per_op"].items())[:3]:
        rep.sample({"op": op, "attempted": att, "returned_procedure": ret})


def replay(art):
    from vf.exoutil import mkprocs
    import re

    seed = seeds.Seed(art["seed"], "replay", art["seed_source"])
    try:
        seed = seeds.by_name(art["seed"])
    except KeyError:
        pass
    st = explore.State(seed, art["path"])
    print("=== source state ===")
    print(st.proc)
    q = menus.apply_event(st.proc, art["event"], st.ns)
    print("=== after", json.dumps(art["event"]), "===")
    print(q)
    print("=== recorded difference ===")
    print(json.dumps(art.get("diff"), indent=1, default=str))
    return 1
