"""C04 -- scheduling never breaks safety or well-formedness."""
import json

from vf import explore, menus, oracles, seeds, wf, inputs, interp, findings, plans
from vf.oracles import BaseOracle
from vf.checks.c01 import fill_evidence, seed_list, replay  # noqa


class Oracle(BaseOracle):
    def after(self, ev, q, exc, outcome):
        if q is None:
            return
        p = self.st.proc
        self.stat("checked_transitions")
        base = {"op": ev["op"], "seed": self.st.seed.name, "depth": len(self.st.hist) + 1, "where": findings.where_of(ev, p)}
        art = {"event": ev, "before": oracles.sstr(p), "after": oracles.sstr(q)}
        # (1) structural well-formedness
        probs = wf.validate(q._loopir_proc)
        if probs:
            if not self.p_wf_ok():
                self.stat("source_already_illformed")
            else:
                k = _wf_kind(probs[0])
                self.violation(dict(base, oracle="wf", kind=k, cause=findings.cause_of(ev, p, q, k)), dict(art, problems=probs))
                return
        # (2) safety monitors / uninitialised reads on the whole control domain.  A finding on a valuation inside
        # the input region of a recorded known finding is reported once (it will match that finding) and the scan
        # continues outside the region, so a different defect of the same primitive is still seen.
        qir = q._loopir_proc
        region = findings.known_region(ev, p)
        seen_in_region = False
        for val, rp in self.p_runs():
            if rp.abort or any(k in inputs.SAFETY_KINDS for k, _ in rp.mon):
                self.stat("vacuous_valuations")
                continue
            in_region = region is not None and region(val)
            if in_region and seen_in_region:
                continue
            found = self._safety_on(ev, p, q, qir, val, rp, base, art)
            if found is None:
                continue
            self.violation(*found)
            if in_region:
                seen_in_region = True
                continue
            return
        # (3) compiles, or is rejected by a documented backend check
        if self.unit.get("compile", True):
            r = oracles.try_compile(q)
            self.stat("compiled")
            if r is not None:
                if r[0] in oracles.DOCUMENTED_COMPILE_REJECTIONS:
                    self.stat("compile_rejected_documented")
                else:
                    pr = oracles.try_compile(p)
                    if pr is not None and pr[0] == r[0]:
                        self.stat("source_also_fails_compile")
                    elif not self.p_wf_ok() or (pr is not None and pr[0] not in oracles.DOCUMENTED_COMPILE_REJECTIONS):
                        # the source state is itself ill-formed / uncompilable (reached through a recorded
                        # known finding at an earlier step): nothing can be demanded of its successors
                        self.stat("source_already_illformed")
                    else:
                        self.violation(dict(base, oracle="compile", kind=r[0], cause=findings.cause_of(ev, p, q, r[0])), dict(art, error=r[1]))

    def _safety_on(self, ev, p, q, qir, val, rp, base, art):
        """-> (sig, artefact) for the first safety finding of q on this valuation, or None"""
        ctrl, lay, cfg0 = val
        jv = oracles.jsonable_val(val)
        try:
            rq = interp.run_proc(qir, ctrl, lay, cfg0)
        except ValueError:
            return None
        except KeyError as ex:
            return (dict(base, oracle="safety", kind="unbound-variable", cause=findings.cause_of(ev, p, q, "unbound-variable", {"input": jv})),
                    dict(art, detail=repr(ex), input=jv))
        self.stat("valuations")
        new = inputs.new_safety(rp, rq)
        if rq.abort and not new:
            new = [("unbound-variable" if rq.abort.startswith("unbound-variable") else "abort", rq.abort)]
        if new:
            return (dict(base, oracle="safety", kind=new[0][0], cause=findings.cause_of(ev, p, q, new[0][0], {"input": jv})),
                    dict(art, monitors=[list(x) for x in new[:4]], input=jv))
        # uninitialised value where the source had a defined one
        for nm, cells in rq.outs.items():
            pc = rp.outs.get(nm)
            if pc is None or len(pc) != len(cells):
                continue
            for i, (a, b) in enumerate(zip(pc, cells)):
                if b is not None and b.has_undef() and not (a is not None and a.has_undef()):
                    return (dict(base, oracle="safety", kind="uninit", cause=findings.cause_of(ev, p, q, "uninit", {"input": jv})),
                            dict(art, cell=f"{nm}@{i}", input=jv))
        return None

    def p_wf_ok(self):
        if not hasattr(self, "_pwf"):
            self._pwf = not wf.validate(self.st.proc._loopir_proc)
        return self._pwf

    def rebind(self, st):
        super().rebind(st)
        if hasattr(self, "_pwf"):
            del self._pwf


def _wf_kind(msg):
    for k in ("unbound", "re-binds", "occurs twice", "indices", "rank", "empty statement block", "window type"):
        if k in msg:
            return k
    return msg[:30]


def run(rep):
    tier = rep.tier
    st = plans.run_plan(rep, "vf.checks.c04", tier, plans.standard(tier, thorough_cap=250, families="dep"))
    fill_evidence(rep, st)
