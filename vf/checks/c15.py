"""C15 -- compile output is valid C; inconsistent annotations are rejected.

(1) annotation grid: small call-graph skeletons x every assignment of precision
/ memory / window-ness (written in source AND reached with set_precision /
set_memory / set_window), judged by a consistency predicate taken literally
from the property statement; inconsistent => compile must raise, consistent =>
compile must succeed and gcc must accept .c + .h.
(2) validity: the C emitted for every seed and back-end family program must be
accepted by gcc -c with -Wall -Werror=incompatible-pointer-types etc."""
import itertools
import json
import os
import shutil
import subprocess
import tempfile

from vf import par, seeds
from vf.gen import programs

PRECS = ["f32", "f64", "i8", "i32"]
MEMS = ["DRAM", "DRAM_STACK", "DRAM_STATIC", "AVX2"]
SUBCLASS = {  # caller memory -> set of callee memories it may be passed to (issubclass)
    "DRAM": {"DRAM"}, "DRAM_STACK": {"DRAM_STACK", "DRAM"}, "DRAM_STATIC": {"DRAM_STATIC", "DRAM"}, "AVX2": {"AVX2"}}

GCC = ["gcc", "-std=c11", "-c", "-Wall", "-Werror=incompatible-pointer-types", "-Werror=discarded-qualifiers",
       "-Werror=implicit-function-declaration", "-Werror=int-conversion", "-mavx2", "-mfma", "-fsyntax-only"]


def gcc_accepts(c, h, hname="prog.h"):
    d = tempfile.mkdtemp(prefix="vfc15_", dir=os.environ.get("VF_TMP", "/tmp"))
    try:
        open(os.path.join(d, hname), "w").write(h)
        open(os.path.join(d, "prog.c"), "w").write(c)
        r = subprocess.run(GCC + ["prog.c"], cwd=d, capture_output=True, text=True, timeout=120)
        errs = [l for l in r.stderr.splitlines() if "error" in l]
        return r.returncode == 0, "\n".join(errs[:6]) or r.stderr[-800:]
    finally:
        shutil.rmtree(d, ignore_errors=True)


# ---------------------------------------------------------------------------
# annotation grid


def grid(tier):
    """-> list of (id, source, entry, expected_consistent, why, post) where post is a list of
    (op, buffer, value) applied with set_* after definition"""
    out = []
    k = 0
    # S1: mixing precisions in one expression
    for px, py, pz in itertools.product(PRECS, PRECS, PRECS):
        src = f"""
@proc
def g{k}(x: {px}[4], y: {py}[4], z: {pz}[4]):
    for i in seq(0, 4):
        z[i] = x[i] + y[i]
"""
        out.append((f"g{k}", src, f"g{k}", px == py, "S1-mixed-expression", []))
        k += 1
    # S1 via set_precision
    for px, py in itertools.product(PRECS, PRECS):
        src = f"""
@proc
def g{k}(x: f32[4], y: f32[4], z: f32[4]):
    for i in seq(0, 4):
        z[i] = x[i] * y[i]
"""
        out.append((f"g{k}", src, f"g{k}", px == py, "S1-mixed-expression-via-set", [("set_precision", "x", px), ("set_precision", "y", py)]))
        k += 1
    # S2: precision across a call (tensor, window and scalar parameters)
    for pa, pb, kind in itertools.product(PRECS, PRECS, ["tensor", "window", "scalar"]):
        if kind == "scalar":
            csig, arg, decl = f"s: {pb}", "t", f"t: {pa}\n    t = 0.0"
            cbody = "s = 1.0"
        else:
            csig = f"d: {pb}[4]" if kind == "tensor" else f"d: [{pb}][4]"
            arg, decl = "x", "pass"
            cbody = "d[0] = 1.0"
        src = f"""
@proc
def c{k}({csig}):
    {cbody}

@proc
def g{k}(x: {pa}[4]):
    {decl}
    c{k}({arg})
"""
        out.append((f"g{k}", src, f"g{k}", pa == pb, "S2-precision-across-call", []))
        k += 1
    # S3: memories across a call, argument and allocation, depth 1 and 2
    for ma, mb in itertools.product(MEMS, MEMS):
        for where in ("arg", "alloc"):
            if where == "arg":
                src = f"""
@proc
def c{k}(d: f32[8] @ {mb}):
    pass

@proc
def g{k}(x: f32[8] @ {ma}):
    c{k}(x)
"""
            else:
                src = f"""
@proc
def c{k}(d: f32[8] @ {mb}):
    pass

@proc
def g{k}(y: f32[8]):
    x: f32[8] @ {ma}
    c{k}(x)
"""
            out.append((f"g{k}", src, f"g{k}", mb in SUBCLASS[ma], "S3-memory-across-call", []))
            k += 1
    for ma, mb, mc in itertools.product(["DRAM", "DRAM_STATIC", "AVX2"], repeat=3):
        src = f"""
@proc
def cc{k}(e: f32[8] @ {mc}):
    pass

@proc
def c{k}(d: f32[8] @ {mb}):
    cc{k}(d)

@proc
def g{k}(x: f32[8] @ {ma}):
    c{k}(x)
"""
        out.append((f"g{k}", src, f"g{k}", mb in SUBCLASS[ma] and mc in SUBCLASS[mb], "S3-memory-depth2", []))
        k += 1
    # S3 via set_memory on the caller's buffer
    for ma, mb in itertools.product(MEMS, ["DRAM", "DRAM_STATIC", "AVX2"]):
        src = f"""
@proc
def c{k}(d: f32[8] @ {mb}):
    pass

@proc
def g{k}(x: f32[8]):
    c{k}(x)
"""
        out.append((f"g{k}", src, f"g{k}", mb in SUBCLASS[ma], "S3-memory-via-set", [("set_memory", "x", ma)]))
        k += 1
    # S4: window-ness
    for param, arg in itertools.product(["tensor", "window"], ["whole", "slice", "winarg", "col"]):
        csig = "d: f32[4]" if param == "tensor" else "d: [f32][4]"
        xdecl = "x: [f32][4, 4]" if arg == "winarg" else "x: f32[4, 4]"
        a = {"whole": "x[0, :]", "slice": "x[1, 0:4]", "winarg": "x[2, :]", "col": "x[:, 1]"}[arg]
        src = f"""
@proc
def c{k}({csig}):
    d[0] = 1.0

@proc
def g{k}({xdecl}):
    c{k}({a})
"""
        # a window expression is always a window: passing it for a dense tensor parameter is inconsistent
        out.append((f"g{k}", src, f"g{k}", param == "window", "S4-window-for-tensor", []))
        k += 1
    for param in ["tensor", "window"]:
        for setw in (True, False):
            csig = "d: f32[4]" if param == "tensor" else "d: [f32][4]"
            src = f"""
@proc
def c{k}({csig}):
    d[0] = 1.0

@proc
def g{k}(x: f32[4]):
    c{k}(x)
"""
            out.append((f"g{k}", src, f"g{k}", not (param == "tensor" and setw), "S4-set_window", [("set_window", "x", setw)]))
            k += 1
    # S6: the same through a window alias (the alias is a second name for the buffer: its reads must follow
    # the buffer's precision, whether that was written in the source or set afterwards)
    for px, py, how in itertools.product(PRECS, PRECS, ["source", "set"]):
        sx, sy = (px, py) if how == "source" else ("f32", "f32")
        src = f"""
@proc
def g{k}(x: {sx}[4], y: {sy}[4], z: {sx}[4]):
    w = y[0:4]
    for i in seq(0, 4):
        z[i] = x[i] * w[i]
"""
        post = [] if how == "source" else [("set_precision", "y", py), ("set_precision", "x", px), ("set_precision", "z", px)]
        out.append((f"g{k}", src, f"g{k}", px == py, "S6-alias-mixed-expression-" + how, post))
        k += 1
    for pa, pb, how in itertools.product(PRECS, PRECS, ["source", "set"]):
        sa = pa if how == "source" else "f32"
        src = f"""
@proc
def c{k}(d: [{pb}][4]):
    d[0] = 1.0

@proc
def g{k}(x: {sa}[8]):
    w = x[2:6]
    c{k}(w)
    c{k}(w[0:4])
"""
        post = [] if how == "source" else [("set_precision", "x", pa)]
        out.append((f"g{k}", src, f"g{k}", pa == pb, "S6-alias-across-call-" + how, post))
        k += 1
    # S5: direct access to a memory that cannot be read / written
    for mem, op in itertools.product(MEMS, ["write", "read", "reduce"]):
        body = {"write": "t[0] = 1.0", "read": "y[0] = t[0]", "reduce": "t[0] += 1.0"}[op]
        src = f"""
@proc
def g{k}(y: f32[8]):
    t: f32[8] @ {mem}
    {body}
"""
        out.append((f"g{k}", src, f"g{k}", mem != "AVX2", "S5-direct-access", []))
        k += 1
    return out


def run_grid_chunk(items):
    from vf.exoutil import mkprocs
    from exo.API import compile_procs_to_strings
    from exo.stdlib import scheduling as S

    out = {"n": 0, "bad": [], "consistent": 0, "inconsistent": 0, "front_end_rejected": 0, "gcc": 0}
    for gid, src, entry, expect, why, post in items:
        out["n"] += 1
        try:
            ns = mkprocs(src, tag="c15")
            p = ns[entry]
        except Exception as ex:
            # rejection at definition time also counts as "rejected"
            out["front_end_rejected"] += 1
            if expect:
                out["bad"].append({"kind": "consistent-rejected-early", "why": why, "src": src, "post": post, "error": f"{type(ex).__name__}: {str(ex)[:300]}"})
            continue
        try:
            for op, buf, val in post:
                c = p.find_alloc_or_arg(buf)
                if op == "set_precision":
                    p = S.set_precision(p, c, val)
                elif op == "set_memory":
                    p = S.set_memory(p, c, ns[val])
                else:
                    p = S.set_window(p, c, val)
        except Exception as ex:
            # the annotation-setting operation itself refused: this assignment is not reachable
            out["unreachable"] = out.get("unreachable", 0) + 1
            continue
        try:
            c, h = compile_procs_to_strings([p], "prog.h")
            ok, err = True, None
        except Exception as ex:
            ok, err = False, f"{type(ex).__name__}: {str(ex)[:300]}"
        if expect:
            out["consistent"] += 1
            if not ok:
                out["bad"].append({"kind": "consistent-rejected", "why": why, "src": src, "post": post, "error": err})
                continue
            out["gcc"] += 1
            g, gerr = gcc_accepts(c, h)
            if not g:
                out["bad"].append({"kind": "invalid-c", "why": why, "src": src, "post": post, "error": gerr, "c": c[-2500:]})
        else:
            out["inconsistent"] += 1
            if ok:
                out["bad"].append({"kind": "inconsistent-accepted", "why": why, "src": src, "post": post, "c": c[-2500:]})
    return out


def run_valid_chunk(job):
    from exo.API import compile_procs_to_strings
    from vf.checks import c02

    out = {"n": 0, "compiled": 0, "bad": []}
    for kind, name, tier in job:
        out["n"] += 1
        try:
            p, ns = c02.get_program(kind, name, tier)
            c, h = compile_procs_to_strings([p], "prog.h")
        except Exception:
            continue
        out["compiled"] += 1
        extra = ""
        g, gerr = gcc_accepts(c, h)
        if not g and "custom_malloc.h" in gerr:
            continue
        if not g:
            out["bad"].append({"kind": "invalid-c", "why": "program-family", "program": name, "error": gerr, "c": c[-2500:], "src": str(p)})
    return out


def run(rep):
    tier = rep.tier
    items = grid(tier)
    tot = cons = incons = gcc = 0
    for out in par.pmap(run_grid_chunk, par.chunks(items, 48)):
        tot += out["n"]
        cons += out["consistent"]
        incons += out["inconsistent"]
        gcc += out["gcc"]
        for b in out["bad"]:
            rep.violation({"oracle": "annotation-grid", "kind": b["kind"], "why": b["why"], "err": (b.get("error") or "")[:60]}, b)
    from vf.checks import c02

    progs = [(k, n, tier) for k, n in c02.program_list(tier)]
    ncomp = 0
    for out in par.pmap(run_valid_chunk, par.chunks(progs, 48)):
        ncomp += out["compiled"]
        for b in out["bad"]:
            rep.violation({"oracle": "valid-c", "kind": b["kind"], "why": b["why"], "program": b["program"], "err": (b.get("error") or "")[:60]}, b)
    rep.set("evaluations", tot + len(progs))
    rep.set("distinct_nontrivial", cons + incons)
    rep.set("grid_assignments", tot)
    rep.set("expected_consistent", cons)
    rep.set("expected_inconsistent", incons)
    rep.set("gcc_checked", gcc + ncomp)
    rep.set("exhaustive", True)
    rep.set("rule", "annotation grid = skeletons {mixed expression, precision across call (tensor/window/scalar), memory across call depth 1-2 "
                    "(argument and allocation), window-ness, direct access} x every assignment over 4 precisions / 4 memories / window-ness, "
                    "written in source and reached via set_precision/set_memory/set_window; plus gcc acceptance of the C of every seed and family program")
    rep.sample({"grid_item": items[5][1], "expected_consistent": items[5][3], "why": items[5][4]})


def replay(art):
    print(art.get("src"))
    print(json.dumps({k: v for k, v in art.items() if k not in ("src", "c")}, indent=1, default=str))
    print(art.get("c", ""))
    return 1
