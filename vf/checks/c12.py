"""C12 -- simplify preserves the value of every index expression.

Probe procedures embed each generated expression e in several contexts and
positions; simplify(p) must be interpreter-equivalent to p on the whole
valuation domain (data symbolic, so the *graph* of e over the iteration space
is compared pointwise, not just as a multiset)."""
import itertools

from vf import par, inputs, interp
from vf.gen import exprs as GE

OFF = 40
SIZE = 96


# contexts: (name, signature extra, preamble asserts, loop nest opener lines, vars available, w index)
def contexts(tier):
    c = []
    c.append(("loop_const", "", [], ["for i in seq(0, 4):"], ["i"], "i"))
    c.append(("loop_lo_hi", "", [], ["for i in seq(2, 5):"], ["i"], "i"))
    c.append(("loop_sym", "n: size, ", ["n <= 5"], ["for i in seq(0, n):"], ["i", "n"], "i"))
    c.append(("two_loops", "", [], ["for i in seq(0, 3):", "for j in seq(1, 3):"], ["i", "j"], "i * 3 + j"))
    c.append(("index_arg", "k: index, ", ["k >= -3", "k <= 3"], ["for i in seq(0, 3):"], ["i", "k"], "i"))
    c.append(("guard_eq", "", [], ["for i in seq(0, 4):", "if i == 1:"], ["i"], "i"))
    c.append(("guard_lt", "n: size, ", ["n <= 6"], ["for i in seq(0, n):", "if i < 2:"], ["i", "n"], "i"))
    c.append(("assert_mod", "n: size, ", ["n % 4 == 0", "n <= 8"], ["for i in seq(0, n):"], ["i", "n"], "i"))
    c.append(("shadow", "", [], ["for i in seq(0, 2):", "for j in seq(0, 2):", "pass", "<<", "for i in seq(2, 5):"], ["i"], "i"))
    c.append(("guard_then_shadow", "", [], ["for i in seq(0, 2):", "if i == 0:", "for i in seq(0, 4):"], ["i"], "i"))
    # statement in the ELSE branch of an equality guard (facts of the then-branch must not leak)
    c.append(("guard_eq_else", "", [], ["for i in seq(0, 4):", "if i == 1:", "pass", "<else>"], ["i"], "i"))
    c.append(("guard_div_else", "", [], ["for i in seq(0, 6):", "if i / 4 == 0:", "pass", "<else>"], ["i"], "i"))
    c.append(("guard_div_then", "", [], ["for i in seq(0, 8):", "if i / 4 == 1:"], ["i"], "i"))
    c.append(("guard_div2_then", "", [], ["for i in seq(0, 6):", "if i / 2 == 2:"], ["i"], "i"))
    # the guard pins a sub-expression to a NEGATIVE constant
    c.append(("guard_sub_div_then", "", [], ["for i in seq(0, 8):", "if (i - 8) / 4 == -1:"], ["i"], "i"))
    c.append(("guard_mod_then", "", [], ["for i in seq(0, 7):", "if i % 3 == 2:"], ["i"], "i"))
    return c


# left-hand side of the equality guard of a context, as an expression tree of vf.gen.exprs
GUARD_LHS = {
    "guard_eq": ("v", "i"),
    "guard_div_then": ("/", ("v", "i"), 4),
    "guard_div2_then": ("/", ("v", "i"), 2),
    "guard_sub_div_then": ("/", ("-", ("v", "i"), ("c", 8)), 4),
    "guard_mod_then": ("%", ("v", "i"), 3),
}


def build_probe(ctx, esrc, position):
    name, sig, asserts, openers, vars_, widx = ctx
    lines = ["@proc", f"def probe({sig}x: f32[{SIZE}], w: f32[32], y: f32[{SIZE}]):"]
    for a in asserts:
        lines.append(f"    assert {a}")
    ind = 1
    for o in openers:
        if o == "<else>":
            lines.append("    " * (ind - 1) + "else:")
            continue
        if o == "<<":
            ind = 1 + 0  # close all: restart at top-level indentation inside the first loop's sibling
            ind = 1
            continue
        lines.append("    " * ind + o)
        if o.endswith(":"):
            ind += 1
        # `pass` keeps indentation
    pad = "    " * ind
    if position == "index":
        lines.append(pad + f"x[{esrc} + {OFF}] += w[{widx}]")
    elif position == "cond_lt":
        lines.append(pad + f"if {esrc} < 2:")
        lines.append(pad + f"    x[{widx}] += w[{widx}]")
    elif position == "cond_eq":
        lines.append(pad + f"if {esrc} == 1:")
        lines.append(pad + f"    x[{widx}] += w[{widx}]")
    elif position == "cond_ge_else":
        lines.append(pad + f"if {esrc} >= 0:")
        lines.append(pad + f"    x[{widx}] += w[{widx}]")
        lines.append(pad + "else:")
        lines.append(pad + f"    y[{widx}] += w[{widx}]")
    elif position == "loop_hi":
        lines.append(pad + f"for q in seq(0, {esrc} + 12):")
        lines.append(pad + f"    x[q] += w[{widx}]")
    elif position == "loop_lo":
        lines.append(pad + f"for q in seq({esrc} + 12, 30):")
        lines.append(pad + f"    x[q] += w[{widx}]")
    elif position == "window":
        lines.append(pad + f"v = x[{esrc} + {OFF}:{esrc} + {OFF} + 2]")
        lines.append(pad + f"v[1] += w[{widx}]")
    elif position == "alloc":
        lines.append(pad + f"t: f32[{esrc} + 14]")
        lines.append(pad + f"t[{esrc} + 13] = w[{widx}]")
        lines.append(pad + f"x[{widx}] += t[{esrc} + 13]")
    return "\n".join(lines) + "\n"


POSITIONS_Q = ["index", "cond_lt", "cond_ge_else", "loop_hi"]
POSITIONS_T = ["index", "cond_lt", "cond_eq", "cond_ge_else", "loop_hi", "loop_lo", "window", "alloc"]


def run_probe(job):
    from vf.exoutil import mkproc
    from exo.stdlib.scheduling import simplify

    out = {"n": 0, "accepted": 0, "changed": 0, "bad": [], "rejected": 0, "simplify_raised": 0, "vals": 0}
    for ctx, e, position in job:
        esrc = GE.to_src(e)
        src = build_probe(ctx, esrc, position)
        out["n"] += 1
        try:
            p = mkproc(src, "probe", tag="c12")
        except Exception:
            out["rejected"] += 1
            continue
        out["accepted"] += 1
        try:
            q = simplify(p)
        except Exception as ex:
            out["simplify_raised"] += 1
            continue
        if str(p) != str(q):
            out["changed"] += 1
        dk = dict(sizes=(1, 2, 3, 4, 5, 6, 7, 8), idxs=(-3, -2, -1, 0, 1, 2, 3), max_vals=64)
        for (val, rp) in inputs.run_all(p._loopir_proc, dk):
            ctrl, lay, cfg0 = val
            try:
                rq = interp.run_proc(q._loopir_proc, ctrl, lay, cfg0)
            except (ValueError, KeyError) as ex:
                out["bad"].append({"ctx": ctx[0], "expr": esrc, "position": position, "kind": "exception", "detail": repr(ex), "src": src, "after": str(q)})
                break
            out["vals"] += 1
            d = inputs.compare_runs(rp, rq)
            if d == "vacuous":
                continue
            if d is not None:
                d["input"] = ctrl
                out["bad"].append({"ctx": ctx[0], "expr": esrc, "position": position, "kind": d["kind"], "diff": d, "src": src, "after": str(q),
                                   "has_mod": "%" in esrc, "has_div": "/" in esrc})
                break
    return out


def classify(b):
    """narrow trigger for the known modulo-elimination defect: expression has a
    `%` whose numerator attains a negative value on the valuation domain"""
    return "mod" if b.get("has_mod") else ("div" if b.get("has_div") else "affine")


def run(rep):
    tier = rep.tier
    ctxs = contexts(tier)
    if tier == "quick":
        nodes, positions = 4, POSITIONS_Q
    else:
        nodes, positions = 5, POSITIONS_T
    jobs = []
    for ctx in ctxs:
        vars_ = ctx[4][:2]
        es = GE.gen_exprs(vars_, [0, 1, -1, 3], [2, 4], nodes, mul_consts=(2, -1))
        # keep expressions that mention at least one variable
        es = [e for e in es if GE.vars_of(e)]
        # structured family: (a*v + b) / d and % d with composite divisors (exercises divisor splitting)
        v0 = vars_[0]
        for a, b, d in itertools.product((1, 2, 3, 4, 6), (0, 1, 3), (4, 6, 8, 12)):
            inner = ("+", ("*", ("c", a), ("v", v0)), ("c", b)) if b else ("*", ("c", a), ("v", v0))
            es.append(("/", inner, d))
            es.append(("%", inner, d))
            if len(vars_) > 1:
                es.append(("/", ("+", inner, ("v", vars_[1])), d))
        # guard-fact family: inside `if g == c:` simplify may substitute c for g; expressions that contain the
        # guard's own left-hand side under another division / modulo (negative intermediate values included)
        gm = GUARD_LHS.get(ctx[0])
        if gm is not None:
            for k, d, op in itertools.product((-4, -3, -2, -1, 1), (2, 3, 4), ("/", "%")):
                es.append((op, ("+", gm, ("c", k)), d))
                es.append(("+", (op, ("+", gm, ("c", k)), d), ("c", 2)))
        small = set(map(repr, GE.gen_exprs(vars_, [0, 1, -1, 3], [2, 4], 4, mul_consts=(2, -1)))) if tier != "quick" else None
        for e in es:
            for pos in positions:
                # expressions without / or % are only interesting as indices (affine normalisation)
                if pos != "index" and not GE.has_divmod(e):
                    continue
                # the four extra positions of the thorough tier take the expressions of the quick bound
                if small is not None and pos not in POSITIONS_Q and repr(e) not in small:
                    continue
                jobs.append((ctx, e, pos))
    if rep.seed:
        import random

        random.Random(rep.seed).shuffle(jobs)
    tot = acc = chg = rej = sr = vals = 0
    for out in par.pmap(run_probe, par.chunks(jobs, 256)):
        tot += out["n"]
        acc += out["accepted"]
        chg += out["changed"]
        rej += out["rejected"]
        sr += out["simplify_raised"]
        vals += out["vals"]
        for b in out["bad"]:
            rep.violation({"oracle": "simplify-equiv", "kind": b["kind"], "ctx": b["ctx"], "position": b["position"],
                           "expr": b["expr"], "cls": classify(b)}, b)
    rep.set("evaluations", tot)
    rep.set("accepted_probes", acc)
    rep.set("distinct_nontrivial", chg)
    rep.set("rejected_by_front_end", rej)
    rep.set("simplify_raised", sr)
    rep.set("valuations_compared", vals)
    rep.set("exhaustive", True)
    rep.set("rule", f"probe procedures = all expressions with <= {nodes} nodes over the context's variables x {len(ctxs)} contexts x {len(positions)} positions; "
                    "non-trivial = simplify changed the printed procedure; oracle = reference interpreter equality with symbolic per-iteration weights")
    rep.sample({"probe": build_probe(ctxs[0], "((i - 3) % 4)", "index")})
    rep.sample({"probe": build_probe(ctxs[8], "(i / 2)", "cond_lt")})


def replay(art):
    from vf.exoutil import mkproc
    from exo.stdlib.scheduling import simplify

    p = mkproc(art["src"], "probe", tag="c12r")
    print(p)
    print(simplify(p))
    print(art.get("diff"))
    return 1
