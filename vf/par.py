"""fork-based parallel map with per-worker init"""
import multiprocessing as mp
import os


def _init():
    try:
        import z3

        z3.set_param("timeout", int(os.environ.get("VF_Z3_TIMEOUT_MS", "15000")))
    except Exception:
        pass
    seed = int(os.environ.get("VERIF_SEED", "0") or 0)
    if seed:
        from exo.core.prelude import Sym

        Sym._unq_count += (seed * 7919) % 100003


def pmap(fn, items, workers=None, chunksize=1):
    workers = workers or min(16, os.cpu_count() or 4)
    if len(items) <= 1 or workers == 1:
        _init()
        return [fn(x) for x in items]
    ctx = mp.get_context("fork")
    with ctx.Pool(workers, initializer=_init) as pool:
        return list(pool.imap(fn, items, chunksize=chunksize))


def chunks(lst, n):
    k = max(1, (len(lst) + n - 1) // n)
    return [lst[i:i + k] for i in range(0, len(lst), k)]
