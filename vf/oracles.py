"""Oracle building blocks evaluated on every transition p --ev--> q."""
import json

from exo.core.LoopIR import LoopIR
from exo.core import internal_cursors as ic
from exo.API_cursors import lift_cursor

from . import inputs, interp, irx, wf


class BaseOracle:
    def __init__(self, st, unit, res):
        self.st = st
        self.unit = unit
        self.res = res
        self.exc_obj = None
        self._p_runs = None

    def stat(self, k, n=1):
        self.res["oracle_stats"][k] = self.res["oracle_stats"].get(k, 0) + n

    def violation(self, sig, art):
        art = dict(art)
        art.setdefault("seed", self.st.seed.name)
        art.setdefault("seed_source", self.st.seed.src)
        art.setdefault("path", self.st.hist)
        self.res["violations"].append((sig, art))

    def before(self, ev):
        pass

    def after(self, ev, q, exc, outcome):
        pass

    def finish(self):
        pass

    def on_corruption(self, ev):
        pass

    def rebind(self, st):
        self.st = st
        self._p_runs = None

    # ----------------------------------------------------------------
    def dom_kwargs(self):
        tier = self.unit["tier"]
        if tier == "quick":
            return dict(sizes=(1, 2, 3), idxs=(-1, 0, 1, 2), cfg_vals=(0, 1, 2), layouts=("dense", "strided"), max_vals=60)
        return dict(sizes=(1, 2, 3, 4, 5), idxs=(-2, -1, 0, 1, 2, 3), cfg_vals=(0, 1, 2), layouts=interp.LAYOUTS, max_vals=400)

    def p_runs(self):
        if self._p_runs is None:
            self._p_runs = runs_with_fallback(self.st.proc._loopir_proc, self.dom_kwargs())
        return self._p_runs


def runs_with_fallback(proc, dk):
    rs = inputs.run_all(proc, dk)
    if len(rs) < 2:
        dk2 = dict(dk)
        dk2["sizes"] = tuple(range(1, 13))
        dk2["max_vals"] = 4000
        rs = inputs.run_all(proc, dk2)[:8]
    return rs


def ev_features(ev):
    """small classification of an event for known-finding triggers"""
    return {"op": ev["op"]}


def reported_cfg_keys(p, q):
    """config fields the system itself reports as possibly changed between p and q"""
    from exo.core.proc_eqv import get_strictest_eqv_proc
    from exo.core.configs import reverse_config_lookup

    is_eqv, keys = get_strictest_eqv_proc(p._loopir_proc, q._loopir_proc)
    out = []
    for k in keys:
        cfg, fld = reverse_config_lookup(k)
        out.append((cfg.name(), fld))
    return is_eqv, out


def equiv_check(oracle, ev, p, q, p_runs, exempt):
    """C01 oracle. returns first difference dict or None; counts stats.
    A difference on a valuation inside the input region of a recorded known finding is kept aside and the scan
    goes on: a difference outside that region is reported in preference."""
    from . import findings as _f

    region = _f.known_region(ev, p)
    aside = None
    qir = q._loopir_proc
    for (val, rp) in p_runs:
        ctrl, lay, cfg0 = val
        if region is not None and aside is not None and region(val):
            continue
        try:
            rq = interp.run_proc(qir, ctrl, lay, cfg0)
        except ValueError:
            oracle.stat("q_precondition_false")
            return {"kind": "precondition-narrowed", "input": val}
        except KeyError as ex:
            return {"kind": "unbound-variable", "detail": f"{ex!r}"[:80], "input": val}
        d = inputs.compare_runs(rp, rq, exempt)
        oracle.stat("valuations")
        if d == "vacuous":
            oracle.stat("vacuous_valuations")
            continue
        if d is not None:
            if d.get("kind") == "size":
                oracle.stat("layout_incomparable")
                continue
            d["input"] = val
            if region is not None and region(val):
                aside = aside or d
                continue
            return d
    return aside


def sstr(p):
    """str(procedure) that cannot take the oracle down (printing an ill-formed result may itself fail)"""
    try:
        return str(p)
    except Exception as ex:
        return f"<unprintable: {type(ex).__name__}: {ex}>"[:200]


def jsonable_val(val):
    ctrl, lay, cfg0 = val
    return {"ctrl": ctrl, "layouts": lay, "cfg0": {f"{k[0]}.{k[1]}": v for k, v in cfg0.items()}}


# ---------------------------------------------------------------------------
# forwarding oracle (C06)


def _resolve(root, path):
    n = root
    for attr, i in path:
        n = getattr(n, attr)
        if i is not None:
            if not (0 <= i < len(n)):
                raise IndexError("dangling")
            n = n[i]
    return n


def _descendants(s):
    out = []
    for _, _, c in irx.stmt_children(s):
        out.append(c)
        out += _descendants(c)
    return out


def forward_check(src, dst, report, max_implicit=0, between=()):
    """src, dst: Procedures with dst derived from src.  report(kind, detail)
    between: the procedures strictly between src and dst on the derivation chain.

    The oracle identifies "the same statement" by node-object identity.  That is only meaningful for a
    node object that occurs exactly once in src, in dst and in every procedure in between: some rewrites
    (specialize) put one statement object into two branches, after which a later rewrite of one copy leaves
    the other copy looking "carried over".  Statements that are not unique in this sense are only checked
    for non-dangling results (counted by the caller through the returned statistics)."""
    from exo.core.internal_cursors import InvalidCursorError

    sroot, droot = src._loopir_proc, dst._loopir_proc
    src_ids_all = irx.stmt_ids(sroot)
    dst_ids_all = irx.stmt_ids(droot)
    shared = set()
    for d in (src_ids_all, dst_ids_all) + tuple(irx.stmt_ids(b._loopir_proc) for b in between):
        for k, ps in d.items():
            if len(ps) > 1:
                shared.add(k)
    # identity maps restricted to unambiguous node objects
    src_ids = {k: v for k, v in src_ids_all.items() if k not in shared}
    dst_ids = {k: v for k, v in dst_ids_all.items() if k not in shared}
    n_ok = n_inv = 0
    for path, N in irx.all_stmts(sroot):
        c = lift_cursor(ic.Node(sroot, list(path)), src)
        try:
            c2 = dst.forward(c)
        except InvalidCursorError:
            n_inv += 1
            continue
        except NotImplementedError:
            n_inv += 1
            continue
        except Exception as ex:
            report("forward-exception", {"cursor": [list(x) for x in path], "exc": f"{type(ex).__name__}: {ex}"[:200]})
            continue
        impl = c2._impl
        if not isinstance(impl, ic.Node):
            report("forward-kind", {"cursor": [list(x) for x in path], "got": type(impl).__name__})
            continue
        if impl._root is not droot:
            report("forward-wrong-root", {"cursor": [list(x) for x in path]})
            continue
        try:
            M = _resolve(droot, impl._path)
        except Exception:
            report("dangling", {"cursor": [list(x) for x in path], "fwd_path": [list(x) for x in impl._path]})
            continue
        if not isinstance(M, LoopIR.stmt):
            report("forward-kind", {"cursor": [list(x) for x in path], "got": type(M).__name__})
            continue
        n_ok += 1
        if id(N) in shared:
            continue
        carriedN = id(N) in dst_ids
        if carriedN:
            if M is not N:
                report("carried-not-found", {"cursor": [list(x) for x in path], "fwd_path": [list(x) for x in impl._path],
                                             "expected_paths": [list(map(list, pp)) for pp in dst_ids[id(N)]][:3],
                                             "stmt": str(N)[:80], "got_stmt": str(M)[:80]})
        else:
            if id(M) in src_ids and M is not N:
                inside = any(M is d for d in _descendants(N))
                if not inside:
                    report("different-statement", {"cursor": [list(x) for x in path], "fwd_path": [list(x) for x in impl._path],
                                                   "stmt": str(N)[:80], "got_stmt": str(M)[:80]})
            else:
                # rebuilt: if N has carried descendants, c' must be an ancestor-or-self of one of them --
                # provided the descendants still live under ONE statement of N's kind (a rewrite such as
                # lift_alloc may move all of them out of the scope, after which nothing can be said)
                desc = [d for d in _descendants(N) if id(d) in dst_ids_all]
                if desc:
                    ok = False
                    tp = tuple(tuple(x) for x in impl._path)
                    for d in desc:
                        for dp in dst_ids_all[id(d)]:
                            if dp[: len(tp)] == tp:
                                ok = True
                    if not ok:
                        # is there another statement of the same kind that still encloses all of them?
                        common = None
                        for d in desc:
                            anc = set()
                            for dp in dst_ids_all[id(d)]:
                                for L in range(1, len(dp)):
                                    anc.add(dp[:L])
                            common = anc if common is None else (common & anc)
                        encl = False
                        for cp in (common or ()):
                            if tp[: len(cp)] == cp:
                                continue  # an ancestor of (or the same as) the forwarded position: outer context
                            try:
                                if type(_resolve(droot, cp)) is type(N):
                                    encl = True
                            except Exception:
                                pass
                        if not encl:
                            ok = True
                    if M is not N and not ok and id(M) not in src_ids and not between:
                        # also accept when M is itself inside the region: M descendant-of-N's rebuilt copy cannot be decided
                        report("rebuilt-lost-descendants", {"cursor": [list(x) for x in path], "fwd_path": [list(x) for x in impl._path],
                                                            "stmt": str(N)[:80], "got_stmt": str(M)[:80]})
    # gaps: never dangling; and when both neighbours of the gap were carried over and are still adjacent
    # (in that order, in one block) -- or the gap sat at the start / end of a block whose neighbour is
    # carried and still first / last -- the forwarded gap must be exactly there
    def locate(node):
        ps = dst_ids.get(id(node))
        return ps[0] if ps and len(ps) == 1 else None

    sblocks = irx.all_blocks(sroot)
    for ppath, attr, lst in sblocks:
        for k in range(len(lst) + 1):
            if k < len(lst):
                anchor_path, w = list(ppath) + [(attr, k)], ic.GapType.Before
            else:
                anchor_path, w = list(ppath) + [(attr, k - 1)], ic.GapType.After
            tags = [(anchor_path, w)]
            if 0 < k < len(lst):
                tags.append((list(ppath) + [(attr, k - 1)], ic.GapType.After))
            for apath, ww in tags:
                g = lift_cursor(ic.Gap(sroot, ic.Node(sroot, list(apath)), ww), src)
                try:
                    g2 = dst.forward(g)
                except (InvalidCursorError, NotImplementedError):
                    continue
                except Exception as ex:
                    report("forward-exception", {"gap": [list(x) for x in apath], "exc": f"{type(ex).__name__}: {ex}"[:200]})
                    continue
                try:
                    gi = g2._impl
                    A = _resolve(droot, gi._anchor._path)
                    if not isinstance(A, LoopIR.stmt) or not isinstance(gi, ic.Gap):
                        report("forward-kind", {"gap": [list(x) for x in apath]})
                        continue
                except Exception:
                    report("dangling", {"gap": [list(x) for x in apath]})
                    continue
                # position of the forwarded gap: (block path, index)
                apar, (aattr, aidx) = tuple(tuple(x) for x in gi._anchor._path[:-1]), gi._anchor._path[-1]
                got = (apar, aattr, aidx if gi._type == ic.GapType.Before else aidx + 1)
                L = lst[k - 1] if k > 0 else None
                R = lst[k] if k < len(lst) else None
                want = None
                lp = locate(L) if L is not None else None
                rp = locate(R) if R is not None else None
                if L is not None and R is not None:
                    if lp and rp and lp[:-1] == rp[:-1] and lp[-1][0] == rp[-1][0] and lp[-1][1] + 1 == rp[-1][1]:
                        want = (rp[:-1], rp[-1][0], rp[-1][1])
                elif L is None and R is not None:
                    if rp and rp[-1][1] == 0:
                        want = (rp[:-1], rp[-1][0], 0)
                elif R is None and L is not None:
                    if lp:
                        try:
                            blk = getattr(_resolve(droot, lp[:-1]), lp[-1][0]) if lp[:-1] else getattr(droot, lp[-1][0])
                            if lp[-1][1] == len(blk) - 1:
                                want = (lp[:-1], lp[-1][0], len(blk))
                        except Exception:
                            pass
                if want is not None and got != want:
                    report("gap-moved", {"gap": [list(x) for x in apath], "side": "before" if ww == ic.GapType.Before else "after",
                                         "want": [list(map(list, want[0])), want[1], want[2]], "got": [list(map(list, got[0])), got[1], got[2]]})
    # blocks (every contiguous range of every statement list of at most 6 statements): never dangling;
    # when all statements of the block were carried over and still form one contiguous run, the
    # forwarded block must be exactly that run
    for ppath, attr, lst in sblocks:
        if len(lst) > 6:
            continue
        for lo in range(len(lst)):
            for hi in range(lo + 1, len(lst) + 1):
                par = ic.Node(sroot, list(ppath)) if ppath else ic.Node(sroot, [])
                b = lift_cursor(ic.Block(sroot, par, attr, range(lo, hi)), src)
                try:
                    b2 = dst.forward(b)
                except (InvalidCursorError, NotImplementedError):
                    continue
                except Exception as ex:
                    report("forward-exception", {"block": [[list(x) for x in ppath], attr, lo, hi], "exc": f"{type(ex).__name__}: {ex}"[:200]})
                    continue
                bi = b2._impl
                if isinstance(bi, ic.Node):
                    # a one-statement block may come back as a node cursor
                    try:
                        ms = [_resolve(droot, bi._path)]
                        gotpos = None
                    except Exception:
                        report("dangling", {"block": [[list(x) for x in ppath], attr, lo, hi]})
                        continue
                elif isinstance(bi, ic.Block):
                    try:
                        an = _resolve(droot, bi._anchor._path)
                        full = getattr(an, bi._attr)
                        r = bi._range
                        if not (0 <= r.start < r.stop <= len(full)):
                            raise IndexError
                        ms = list(full[r.start:r.stop])
                        gotpos = (tuple(tuple(x) for x in bi._anchor._path), bi._attr, r.start, r.stop)
                    except Exception:
                        report("dangling", {"block": [[list(x) for x in ppath], attr, lo, hi],
                                            "fwd": [[list(x) for x in bi._anchor._path], bi._attr, bi._range.start, bi._range.stop]})
                        continue
                else:
                    report("forward-kind", {"block": [[list(x) for x in ppath], attr, lo, hi], "got": type(bi).__name__})
                    continue
                ns = lst[lo:hi]
                locs = [locate(x) for x in ns]
                if all(locs):
                    same_blk = all(l[:-1] == locs[0][:-1] and l[-1][0] == locs[0][-1][0] for l in locs)
                    contiguous = same_blk and all(locs[t][-1][1] == locs[0][-1][1] + t for t in range(len(locs)))
                    # the forwarded block may legitimately be a shorter run (composed move + delete forwarding drops
                    # end points); what it must never do is take in a carried statement from outside the block
                    inside = {id(x) for x in ns}
                    for x in ns:
                        inside |= {id(d) for d in _descendants(x)}
                    foreign = [m for m in ms if id(m) in src_ids and id(m) not in inside]
                    if contiguous and foreign:
                        report("block-moved", {"block": [[list(x) for x in ppath], attr, lo, hi],
                                               "want_first": str(ns[0])[:60], "got_first": str(ms[0])[:60], "got_len": len(ms), "want_len": len(ns)})
    return n_ok, n_inv


# ---------------------------------------------------------------------------
# documented backend rejections for compilation (C04)

DOCUMENTED_COMPILE_REJECTIONS = ("TypeError", "MemGenError", "ConfigError", "ParallelAnalysisError")


def try_compile(q):
    try:
        q.c_code_str()
        return None
    except Exception as ex:
        return type(ex).__name__, str(ex)[:300]
