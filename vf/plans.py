"""Exploration plans shared by the explorer-based checks (C01, C04, C06, C07, C17).

A plan is a list of phases; every phase is one bounded BFS (`explore.explore`) with its own seed list,
per-level alphabets and depth.  The statistics are merged and every phase is reported separately in the
evidence, so the bounds actually covered are visible.

 phase A  curated seeds, complete menu, depth 1
 phase B  generated dependence family (13 x 13 statement pairs under one loop), complete menu, depth 1
 phase B2 generated loop-nest family (3 outer x 6 inner bound shapes x 6 bodies), complete menu, depth 1
 phase C  depth 2 from a named subset of small seeds: first step from the structure-creating
          primitives (STEP1_OPS), second step over the complete menu; level-1 transitions are judged
          in phase A and only generate states here
"""
from . import explore, seeds

# first steps that create the IR shapes other primitives then have to cope with
STEP1_OPS = frozenset({
    "divide_loop", "cut_loop", "shift_loop", "unroll_loop", "fission", "fuse", "reorder_loops",
    "reorder_stmts", "specialize", "stage_mem", "lift_alloc", "sink_alloc", "expand_dim", "divide_dim",
    "bind_expr", "add_loop", "mult_loops", "join_loops", "inline", "inline_window", "extract_subproc0",
    "replace", "lift_scope", "unroll_buffer", "resize_dim", "rearrange_dim", "divide_with_recompute",
    "merge_writes", "fold_into_reduce", "split_write", "inline_assign", "reuse_buffer", "remove_loop",
    "simplify", "eliminate_dead_code", "mult_dim", "delete_buffer", "autolift_alloc", "lift_reduce_constant",
    "set_window", "add_unsafe_guard",
})

# small seeds on which the depth-2 phase of the quick tier is exhaustive
QUICK_D2_SEEDS = ["loops/l1", "dep/scalar_between"]


def merge(total, st, label):
    if total is None:
        total = {"states": 0, "transitions": 0, "outcomes": {}, "per_op": {}, "timeouts": 0, "cap_hit": None,
                 "levels": [], "oracle_stats": {}, "distinct_states_seen": 0, "phases": []}
    total["states"] += st["states"]
    total["transitions"] += st["transitions"]
    total["timeouts"] += st["timeouts"]
    total["distinct_states_seen"] += st.get("distinct_states_seen") or 0
    for k, v in st["outcomes"].items():
        total["outcomes"][k] = total["outcomes"].get(k, 0) + v
    for k, v in st["per_op"].items():
        po = total["per_op"].setdefault(k, [0, 0])
        po[0] += v[0]
        po[1] += v[1]
    for k, v in st["oracle_stats"].items():
        total["oracle_stats"][k] = total["oracle_stats"].get(k, 0) + v
    for l in st["levels"]:
        total["levels"].append(dict(l, phase=label))
    if st["cap_hit"]:
        total["cap_hit"] = (total["cap_hit"] + "; " if total["cap_hit"] else "") + f"{label}: {st['cap_hit']}"
    total["phases"].append({"phase": label, "states": st["states"], "transitions": st["transitions"],
                            "cap_hit": st["cap_hit"]})
    return total


def run_plan(rep, oracle, tier, phases, **common):
    """phases: list of dict(label=, seeds=, depth=, plus explore() keyword arguments)"""
    total = None
    for ph in phases:
        ph = dict(ph)
        label = ph.pop("label")
        names = ph.pop("seeds")
        depth = ph.pop("depth")
        kw = dict(common)
        kw.update(ph)
        ptier = kw.pop("tier", tier)
        st = explore.explore(rep, names, oracle, ptier, depth=depth, **kw)
        total = merge(total, st, label)
    return total


def curated():
    return [s.name for s in seeds.SEEDS]


def depgen():
    return [s.name for s in seeds.dep_seeds()]


def nestgen():
    return [s.name for s in seeds.nest_seeds()]


# operations whose side conditions depend on the dependence / bound structure the generated families vary
DEP_OPS = frozenset({
    "reorder_stmts", "fission", "fuse", "reorder_loops", "lift_scope", "remove_loop", "add_loop", "join_loops",
    "cut_loop", "shift_loop", "divide_loop", "divide_with_recompute", "unroll_loop", "mult_loops", "merge_writes",
    "fold_into_reduce", "inline_assign", "lift_reduce_constant", "stage_mem", "specialize", "eliminate_dead_code",
    "std.unroll_and_jam", "std.hoist_stmt", "std.fission_into_singles", "std.hoist_from_loop", "std.tile_loops",
    "std.reorder_stmt_forward", "std.reorder_stmt_backwards", "std.interleave_loop", "autofission", "simplify",
    "extract_subproc0", "bind_expr", "delete_pass",
})


def standard(tier, d2_states_cap=None, thorough_cap=400, thorough_budget=3000, families="full", d2_seeds=None):
    """the plan used by C01/C04/C06/C07/C17 (each passes its own caps).
    families: "full" (complete menu on the generated families in the thorough tier, DEP_OPS in the quick
    tier), "dep" (dependence-relevant operations only)
    or None (the generated families add nothing for this oracle)"""
    fam = []
    if families:
        ops = None if (families == "full" and tier != "quick") else DEP_OPS
        fam = [{"label": "B:depgen-depth1", "seeds": depgen(), "depth": 1, "root_parts": 1, "ops": ops},
               {"label": "B2:nestgen-depth1", "seeds": nestgen(), "depth": 1, "root_parts": 1, "ops": ops}]
    phase_c = {"label": "C:subset-depth2", "seeds": list(d2_seeds or QUICK_D2_SEEDS), "depth": 2, "root_parts": 4,
               "ops_by_depth": [STEP1_OPS, None], "oracle_from_depth": 1, "max_states_per_level": d2_states_cap,
               # the depth-2 phase always uses the quick menus: the space it covers was triaged completely
               # (depth 2 with the thorough menus keeps reaching further genuine defects, see DESIGN II.7)
               "tier": "quick"}
    if tier == "quick":
        return [{"label": "A:curated-depth1", "seeds": curated(), "depth": 1, "root_parts": 6}] + fam + [phase_c]
    return [{"label": "A:curated-depth1", "seeds": curated(), "depth": 1, "root_parts": 8}] + fam + [phase_c]
