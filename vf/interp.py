"""Independent big-step reference interpreter for Exo LoopIR.

Control (index/size/bool/stride) values are concrete Python ints/bools; data
values are `Poly` normal forms (symbolic indeterminates or constants).  Only
attribute access on the LoopIR ADT nodes is used -- no Exo pass is reused.
"""
from fractions import Fraction
from itertools import count

from exo.core.LoopIR import LoopIR, T

from .poly import Poly

_uid = count(1)


class InterpAbort(Exception):
    """execution cannot continue (e.g. index far outside backing store)"""


class Storage:
    __slots__ = ("uid", "name", "cells", "kind")

    def __init__(self, name, n, kind):
        self.uid = next(_uid)
        self.name = name
        self.cells = [None] * n
        self.kind = kind  # 'arg' | 'alloc'


class View:
    __slots__ = ("st", "off", "strides", "shape")

    def __init__(self, st, off, strides, shape):
        self.st = st
        self.off = off
        self.strides = tuple(strides)
        self.shape = tuple(shape)

    def __repr__(self):
        return f"View({self.st.name}#{self.st.uid},off={self.off},str={self.strides},shape={self.shape})"


def dense_strides(shape):
    s = [1] * len(shape)
    for d in range(len(shape) - 2, -1, -1):
        s[d] = s[d + 1] * shape[d + 1]
    return s


_EXT_EVAL = {
    "relu": lambda a: a[0] if a[0] > 0 else Fraction(0),
    "select": lambda a: a[2] if a[0] < a[1] else a[3],
    "fmaxf": lambda a: max(a[0], a[1]),
}


class Interp:
    def __init__(self, monitors=True, max_steps=200000, par_order=None):
        self.mon = []  # list of (kind, detail-string)
        self.monitors = monitors
        self.cfg = {}  # (config name, field) -> int|bool|Poly
        self.cfg_undef = False
        self.steps = 0
        self.max_steps = max_steps
        self.par_track = []  # stack of dict iter->(R,W,Red) for active par loops
        self.par_order = par_order  # optional fn(list of iters)->list

    # ------------------------------------------------------------------ util
    def trip(self, kind, detail):
        if self.monitors:
            self.mon.append((kind, detail))

    def _touch(self, mode, loc):
        for tr in self.par_track:
            tr["cur"][mode].add(loc)

    # ------------------------------------------------------------ cell access
    def _addr(self, v, idx, what, nm):
        if len(idx) != len(v.shape):
            raise InterpAbort(f"rank mismatch on {nm}: {len(idx)} vs {len(v.shape)}")
        a = v.off
        for d, (i, s, n) in enumerate(zip(idx, v.strides, v.shape)):
            if i < 0 or i >= n:
                self.trip("oob", f"{what} {nm}{list(idx)} dim {d} extent {n}")
            a += i * s
        if a < 0 or a >= len(v.st.cells):
            self.trip("oob_base", f"{what} {nm}{list(idx)} addr {a} size {len(v.st.cells)}")
            raise InterpAbort(f"access outside backing store {nm}{list(idx)}")
        return a

    def load(self, v, idx, nm):
        a = self._addr(v, idx, "read", nm)
        self._touch("R", (v.st.uid, a))
        c = v.st.cells[a]
        if c is None:
            c = Poly.atom(("undef", v.st.uid, a))
            v.st.cells[a] = c
        return c

    def store(self, v, idx, val, nm, reduce=False):
        a = self._addr(v, idx, "write", nm)
        if reduce:
            self._touch("D", (v.st.uid, a))
            c = v.st.cells[a]
            if c is None:
                c = Poly.atom(("undef", v.st.uid, a))
            v.st.cells[a] = c + val
        else:
            self._touch("W", (v.st.uid, a))
            v.st.cells[a] = val

    # ------------------------------------------------------------ expressions
    def ev(self, e, env):
        if isinstance(e, LoopIR.Read):
            v = env[e.name]
            if isinstance(v, View):
                if not e.idx and v.shape:
                    return v  # whole tensor (call argument)
                idx = [self.ev(i, env) for i in e.idx]
                return self.load(v, idx, str(e.name))
            return v
        if isinstance(e, LoopIR.Const):
            if isinstance(e.val, bool):
                return e.val
            if e.type.is_indexable() or isinstance(e.type, (T.Int,)):
                return int(e.val)
            return Poly.const(Fraction(e.val))
        if isinstance(e, LoopIR.USub):
            a = self.ev(e.arg, env)
            return -a
        if isinstance(e, LoopIR.BinOp):
            return self.ev_binop(e, env)
        if isinstance(e, LoopIR.WindowExpr):
            return self.ev_window(e, env)
        if isinstance(e, LoopIR.StrideExpr):
            v = env[e.name]
            return v.strides[e.dim]
        if isinstance(e, LoopIR.ReadConfig):
            k = (e.config.name(), e.field)
            self._touch("R", ("cfg",) + k)
            if k not in self.cfg:
                ty = e.config.lookup_type(e.field)
                if ty.is_real_scalar():
                    self.cfg[k] = Poly.atom(("in", f"{k[0]}.{k[1]}"))
                else:
                    self.trip("cfg_unset", f"{k}")
                    self.cfg[k] = False if isinstance(ty, T.Bool) else 1
            return self.cfg[k]
        if isinstance(e, LoopIR.Extern):
            args = [self.ev(a, env) for a in e.args]
            nm = e.f.name()
            if all(a.is_const() for a in args) and nm in _EXT_EVAL:
                return Poly.const(_EXT_EVAL[nm]([a.const_val() for a in args]))
            return Poly.atom(("ext", nm, tuple(a.key() for a in args)))
        raise InterpAbort(f"unknown expr {type(e)}")

    def ev_binop(self, e, env):
        op = e.op
        if op == "and":
            l = self.ev(e.lhs, env)
            r = self.ev(e.rhs, env)
            return bool(l) and bool(r)
        if op == "or":
            l = self.ev(e.lhs, env)
            r = self.ev(e.rhs, env)
            return bool(l) or bool(r)
        l = self.ev(e.lhs, env)
        r = self.ev(e.rhs, env)
        if isinstance(l, Poly) or isinstance(r, Poly):
            if not isinstance(l, Poly):
                l = Poly.const(l)
            if not isinstance(r, Poly):
                r = Poly.const(r)
            if op == "+":
                return l + r
            if op == "-":
                return l - r
            if op == "*":
                return l * r
            if op == "/":
                return l.div(r)
            raise InterpAbort(f"data binop {op}")
        if op == "+":
            return l + r
        if op == "-":
            return l - r
        if op == "*":
            return l * r
        if op == "/":
            if r == 0:
                self.trip("div0", "index division by zero")
                raise InterpAbort("div0")
            return l // r
        if op == "%":
            if r == 0:
                self.trip("div0", "index modulo by zero")
                raise InterpAbort("div0")
            return l % r
        if op == "<":
            return l < r
        if op == ">":
            return l > r
        if op == "<=":
            return l <= r
        if op == ">=":
            return l >= r
        if op == "==":
            return l == r
        raise InterpAbort(f"binop {op}")

    def ev_window(self, e, env):
        v = env[e.name]
        if len(e.idx) != len(v.shape):
            raise InterpAbort("window rank mismatch")
        off = v.off
        strides, shape = [], []
        for d, (w, s, n) in enumerate(zip(e.idx, v.strides, v.shape)):
            if isinstance(w, LoopIR.Point):
                p = self.ev(w.pt, env)
                if p < 0 or p >= n:
                    self.trip("win_extent", f"window {e.name} point {p} dim {d} extent {n}")
                off += p * s
            else:
                lo = self.ev(w.lo, env)
                hi = self.ev(w.hi, env)
                if lo < 0 or hi > n or lo > hi:
                    # an over-wide window is not itself an access; accesses through it are
                    # checked against the view (oob) and the backing store (oob_base)
                    self.trip("win_extent", f"window {e.name} interval [{lo}:{hi}] dim {d} extent {n}")
                off += lo * s
                strides.append(s)
                shape.append(hi - lo)
        return View(v.st, off, strides, shape)

    # -------------------------------------------------------------- statements
    def run_block(self, stmts, env):
        env = dict(env)  # scope: names bound here vanish at block end
        for s in stmts:
            self.run_stmt(s, env)

    def run_stmt(self, s, env):
        self.steps += 1
        if self.steps > self.max_steps:
            raise InterpAbort("step budget")
        if isinstance(s, (LoopIR.Assign, LoopIR.Reduce)):
            v = env[s.name]
            idx = [self.ev(i, env) for i in s.idx]
            rhs = self.ev(s.rhs, env)
            if not isinstance(rhs, Poly):
                rhs = Poly.const(int(rhs))
            self.store(v, idx, rhs, str(s.name), reduce=isinstance(s, LoopIR.Reduce))
        elif isinstance(s, LoopIR.WriteConfig):
            val = self.ev(s.rhs, env)
            k = (s.config.name(), s.field)
            self._touch("W", ("cfg",) + k)
            self.cfg[k] = val
        elif isinstance(s, LoopIR.Pass):
            pass
        elif isinstance(s, LoopIR.If):
            c = self.ev(s.cond, env)
            if c:
                self.run_block(s.body, env)
            elif s.orelse:
                self.run_block(s.orelse, env)
        elif isinstance(s, LoopIR.For):
            lo = self.ev(s.lo, env)
            hi = self.ev(s.hi, env)
            if hi < lo:
                self.trip("neg_loop", f"for {s.iter} in seq({lo},{hi})")
            its = list(range(lo, hi))
            is_par = isinstance(s.loop_mode, LoopIR.Par)
            if is_par:
                tr = {"iters": [], "cur": None}
                self.par_track.append(tr)
                if self.par_order is not None:
                    its = self.par_order(its)
            for i in its:
                if is_par:
                    tr["cur"] = {"R": set(), "W": set(), "D": set()}
                    tr["iters"].append(tr["cur"])
                env2 = dict(env)
                env2[s.iter] = i
                self.run_block(s.body, env2)
            if is_par:
                self.par_track.pop()
                self._par_check(s, tr)
                # propagate accesses outward to enclosing par loops
                for outer in self.par_track:
                    for it in tr["iters"]:
                        for m in ("R", "W", "D"):
                            outer["cur"][m] |= it[m]
        elif isinstance(s, LoopIR.Alloc):
            shp = [self.ev(h, env) for h in s.type.shape()]
            n = 1
            for d, h in enumerate(shp):
                if h < 1:
                    self.trip("alloc_size", f"alloc {s.name} dim {d} extent {h}")
                    h = max(h, 0)
                n *= h
            st = Storage(str(s.name), n, "alloc")
            env[s.name] = View(st, 0, dense_strides(shp), shp)
        elif isinstance(s, LoopIR.Free):
            pass
        elif isinstance(s, LoopIR.WindowStmt):
            env[s.name] = self.ev(s.rhs, env)
        elif isinstance(s, LoopIR.Call):
            self.run_call(s, env)
        else:
            raise InterpAbort(f"unknown stmt {type(s)}")

    def _par_check(self, s, tr):
        its = tr["iters"]
        for a in range(len(its)):
            wa = its[a]["W"] | its[a]["D"]
            if not wa:
                continue
            for b in range(len(its)):
                if a == b:
                    continue
                other = its[b]["R"] | its[b]["W"] | its[b]["D"]
                x = wa & other
                if x:
                    self.trip("par_conflict", f"par loop {s.iter}: iterations {a},{b} conflict on {sorted(map(str, x))[:2]}")
                    return

    def run_call(self, s, env):
        f = s.f
        cenv = {}
        stores = []
        for fa, a in zip(f.args, s.args):
            val = self.ev(a, env)
            ty = fa.type
            if ty.is_numeric():
                if not isinstance(val, View):
                    # scalar read evaluated to a value: need the reference
                    if isinstance(a, LoopIR.Read) and isinstance(env.get(a.name), View):
                        val = env[a.name]
                    elif isinstance(a, LoopIR.ReadConfig) and isinstance(val, Poly):
                        # a configuration field passed for a scalar parameter: by value
                        tmp = Storage(f"{a.config.name()}.{a.field}", 1, "alloc")
                        tmp.cells[0] = val
                        val = View(tmp, 0, [], [])
                    else:
                        raise InterpAbort("numeric call argument is not a buffer")
                if ty.is_tensor_or_window():
                    want = [self.ev(h, cenv) for h in ty.shape()]
                    if list(val.shape) != want:
                        self.trip("call_shape", f"call {f.name} arg {fa.name}: shape {list(val.shape)} vs declared {want}")
                    if not ty.is_win():
                        if list(val.strides) != dense_strides(val.shape) and all(h > 0 for h in val.shape):
                            self.trip("call_dense", f"call {f.name} arg {fa.name}: non-dense view passed as tensor")
                else:
                    if val.shape:
                        self.trip("call_shape", f"call {f.name} arg {fa.name}: tensor passed for scalar")
                stores.append((fa.name, val))
            else:
                if isinstance(ty, T.Size) and val < 1:
                    self.trip("call_size", f"call {f.name} size arg {fa.name} = {val}")
            cenv[fa.name] = val
        # aliasing: two numeric arguments overlapping on the same storage
        for i in range(len(stores)):
            for j in range(i + 1, len(stores)):
                vi, vj = stores[i][1], stores[j][1]
                if vi.st is vj.st and _views_overlap(vi, vj):
                    self.trip("alias", f"call {f.name}: args {stores[i][0]} and {stores[j][0]} overlap")
        for p in f.preds:
            try:
                ok = self.ev(p, cenv)
            except InterpAbort:
                ok = True
            if not ok:
                self.trip("call_pred", f"call {f.name}: assertion {p} false")
        self.run_block(f.body, cenv)


def _view_cells(v):
    cells = {v.off}
    for s, n in zip(v.strides, v.shape):
        cells = {c + i * s for c in cells for i in range(n)}
    return cells


def _views_overlap(a, b):
    na = 1
    for n in a.shape:
        na *= n
    nb = 1
    for n in b.shape:
        nb *= n
    if na > 4096 or nb > 4096:
        return True
    return bool(_view_cells(a) & _view_cells(b))


# ---------------------------------------------------------------------------
# Running a whole procedure


class RunResult:
    __slots__ = ("outs", "cfg", "mon", "abort", "steps")

    def __init__(self):
        self.outs = {}
        self.cfg = {}
        self.mon = []
        self.abort = None
        self.steps = 0


LAYOUTS = ("dense", "padded", "strided", "offset")


def make_arg_view(name, shape, layout, is_window, data):
    """build (storage, view) for a tensor argument.  `data(name, flatidx)` gives
    the initial cell value for the backing cell index."""
    if not is_window or layout == "dense" or not shape:
        n = 1
        for h in shape:
            n *= max(h, 0)
        st = Storage(name, n, "arg")
        v = View(st, 0, dense_strides(shape), shape)
    elif layout == "padded":
        # leading dimension padded by 2
        inner = dense_strides(shape)
        strides = list(inner)
        if len(shape) >= 2:
            pad = 2
            row = shape[-1] + pad
            strides[-1] = 1
            acc = row
            for d in range(len(shape) - 2, -1, -1):
                strides[d] = acc
                acc *= shape[d]
            n = acc
        else:
            strides = [1]
            n = shape[0] + 2
        st = Storage(name, n, "arg")
        v = View(st, 0, strides, shape)
    elif layout == "strided":
        # non-unit innermost stride 2
        strides = [2 * s for s in dense_strides(shape)]
        n = 1
        for h in shape:
            n *= h
        st = Storage(name, 2 * n, "arg")
        v = View(st, 0, strides, shape)
    elif layout == "offset":
        strides = dense_strides(shape)
        n = 1
        for h in shape:
            n *= h
        st = Storage(name, n + 3, "arg")
        v = View(st, 3, strides, shape)
    else:
        raise ValueError(layout)
    st.cells = [data(name, i) for i in range(len(st.cells))]
    return st, v


def sym_data(name, i):
    return Poly.atom(("in", name, i))


def run_proc(proc, ctrl, layouts=None, cfg0=None, data=sym_data, monitors=True,
             max_steps=200000, par_order=None, stride_unit_only=None):
    """Execute LoopIR.proc `proc`.

    ctrl: dict argname(str) -> int/bool for every non-numeric argument.
    layouts: dict argname -> layout name for window arguments (default dense).
    cfg0: dict (config,field)->value initial control-typed config state.
    returns RunResult with outs: argname -> tuple of Poly keys of the backing
    store (in order), cfg: final config map.
    Raises ValueError('precondition') if an assertion of `proc` is false.
    """
    it = Interp(monitors=monitors, max_steps=max_steps, par_order=par_order)
    if cfg0:
        it.cfg.update(cfg0)
    env = {}
    stores = []
    res = RunResult()
    layouts = layouts or {}
    try:
        for fa in proc.args:
            nm = str(fa.name)
            ty = fa.type
            if ty.is_numeric():
                if ty.is_tensor_or_window():
                    shp = [it.ev(h, env) for h in ty.shape()]
                    if any(h < 1 for h in shp):
                        raise ValueError("precondition")
                    st, v = make_arg_view(nm, shp, layouts.get(nm, "dense"), ty.is_win(), data)
                else:
                    st, v = make_arg_view(nm, [], "dense", False, data)
                env[fa.name] = v
                stores.append((nm, st))
            else:
                env[fa.name] = ctrl[nm]
        for p in proc.preds:
            if not it.ev(p, env):
                raise ValueError("precondition")
        # monitors during precondition evaluation are irrelevant
        it.mon.clear()
        try:
            it.run_block(proc.body, env)
        except InterpAbort as ex:
            res.abort = str(ex)
        except KeyError as ex:
            res.abort = f"unbound-variable {ex!r}"
    except InterpAbort as ex:
        raise ValueError("precondition")
    for nm, st in stores:
        res.outs[nm] = [c for c in st.cells]
    res.cfg = dict(it.cfg)
    res.mon = it.mon
    res.steps = it.steps
    return res
