"""Structural well-formedness validator for LoopIR procedures (independent of
Exo's own checks): binder/scope discipline, arity, type discipline, no shared
statement nodes."""
from exo.core.LoopIR import LoopIR, T


def validate(proc, deep=True, validated=None):
    """returns list of problem strings (empty = well-formed)"""
    probs = []
    seen_stmt = set()
    if validated is None:
        validated = set()

    ctxt = [""]

    def err(msg):
        if len(probs) < 20:
            probs.append(msg + (f" [{ctxt[0]}]" if ctxt[0] else ""))

    def rank_of(ty):
        if isinstance(ty, (T.Tensor, T.Window)):
            return len(ty.shape())
        return 0

    def chk_type_exprs(ty, env):
        if isinstance(ty, T.Tensor):
            for h in ty.hi:
                chk_e(h, env, want="index")
        elif isinstance(ty, T.Window):
            pass  # T.Window annotations (src_buf etc.) are not part of the property

    def chk_e(e, env, want=None):
        if isinstance(e, LoopIR.Read):
            if e.name not in env:
                err(f"use of unbound variable {e.name!r} in read")
                return
            kind, r = env[e.name]
            if kind == "ctrl":
                if e.idx:
                    err(f"control variable {e.name!r} indexed")
            else:
                if e.idx and len(e.idx) != r:
                    err(f"read {e.name!r} with {len(e.idx)} indices, rank {r}")
                if not e.idx and r > 0 and want != "arg":
                    err(f"tensor {e.name!r} read without indices in scalar context")
            for i in e.idx:
                chk_e(i, env, want="index")
                if not i.type.is_indexable():
                    err(f"non-index expression used as index of {e.name!r}: {i} : {i.type}")
            if want == "index" and kind != "ctrl":
                err(f"data variable {e.name!r} used in index expression")
        elif isinstance(e, LoopIR.Const):
            pass
        elif isinstance(e, LoopIR.USub):
            chk_e(e.arg, env, want)
        elif isinstance(e, LoopIR.BinOp):
            sub = want
            if e.op in ("<", ">", "<=", ">=", "=="):
                sub = "index" if e.lhs.type.is_indexable() or e.rhs.type.is_indexable() else None
            if e.op in ("and", "or"):
                sub = None
            chk_e(e.lhs, env, sub)
            chk_e(e.rhs, env, sub)
            if e.op in ("/", "%") and e.type.is_indexable():
                if not (isinstance(e.rhs, LoopIR.Const) and isinstance(e.rhs.val, int) and e.rhs.val > 0):
                    err(f"index {e.op} by non-positive-literal: {e}")
        elif isinstance(e, LoopIR.Extern):
            for a in e.args:
                chk_e(a, env)
        elif isinstance(e, LoopIR.WindowExpr):
            if e.name not in env:
                err(f"use of unbound variable {e.name!r} in window")
                return
            kind, r = env[e.name]
            if kind == "ctrl":
                err(f"window of control variable {e.name!r}")
                return
            if len(e.idx) != r:
                err(f"window {e.name!r} with {len(e.idx)} accesses, rank {r}")
            nint = 0
            for w in e.idx:
                if isinstance(w, LoopIR.Point):
                    chk_e(w.pt, env, "index")
                else:
                    nint += 1
                    chk_e(w.lo, env, "index")
                    chk_e(w.hi, env, "index")
            if isinstance(e.type, T.Window):
                # NB: disagreement between the T.Window annotation and the expression is an
                # annotation matter, not part of the property; only scoping is checked here
                pass
        elif isinstance(e, LoopIR.StrideExpr):
            if e.name not in env:
                err(f"use of unbound variable {e.name!r} in stride")
                return
            kind, r = env[e.name]
            if kind == "ctrl" or not (0 <= e.dim < r):
                err(f"stride({e.name!r},{e.dim}) out of rank {r}")
        elif isinstance(e, LoopIR.ReadConfig):
            if not e.config.has_field(e.field):
                err(f"config {e.config.name()} has no field {e.field}")

    def chk_block(stmts, env):
        env = dict(env)
        if not stmts:
            err("empty statement block")
        for s in stmts:
            chk_s(s, env)

    def bind(env, name, val, what):
        if name in env:
            err(f"{what} re-binds {name!r} already bound on this scope path")
        env[name] = val

    def chk_s(s, env):
        seen_stmt.add(id(s))
        if isinstance(s, (LoopIR.Assign, LoopIR.Reduce)):
            if s.name not in env:
                err(f"write to unbound variable {s.name!r}")
            else:
                kind, r = env[s.name]
                if kind == "ctrl":
                    err(f"write to control variable {s.name!r}")
                elif len(s.idx) != r:
                    err(f"write {s.name!r} with {len(s.idx)} indices, rank {r}")
            for i in s.idx:
                chk_e(i, env, "index")
                if not i.type.is_indexable():
                    err(f"non-index expression used as index of {s.name!r}")
            chk_e(s.rhs, env)
        elif isinstance(s, LoopIR.WriteConfig):
            if not s.config.has_field(s.field):
                err(f"config {s.config.name()} has no field {s.field}")
            chk_e(s.rhs, env)
        elif isinstance(s, LoopIR.Pass):
            pass
        elif isinstance(s, LoopIR.If):
            chk_e(s.cond, env)
            if not isinstance(s.cond.type, T.Bool):
                err(f"if condition of type {s.cond.type}")
            chk_block(s.body, env)
            if s.orelse:
                chk_block(s.orelse, env)
        elif isinstance(s, LoopIR.For):
            chk_e(s.lo, env, "index")
            chk_e(s.hi, env, "index")
            e2 = dict(env)
            bind(e2, s.iter, ("ctrl", 0), "loop")
            chk_block(s.body, e2)
        elif isinstance(s, LoopIR.Alloc):
            ctxt[0] = "alloc-type"
            chk_type_exprs(s.type, env)
            ctxt[0] = ""
            if isinstance(s.type, T.Tensor) and s.type.is_window:
                err(f"alloc {s.name!r} of window type")
            bind(env, s.name, ("data", rank_of(s.type)), "alloc")
        elif isinstance(s, LoopIR.Free):
            pass
        elif isinstance(s, LoopIR.WindowStmt):
            chk_e(s.rhs, env)
            if not isinstance(s.rhs, LoopIR.WindowExpr):
                err("window statement rhs is not a window expression")
                return
            nint = sum(1 for w in s.rhs.idx if isinstance(w, LoopIR.Interval))
            bind(env, s.name, ("data", nint), "window")
        elif isinstance(s, LoopIR.Call):
            f = s.f
            if len(f.args) != len(s.args):
                err(f"call {f.name}: {len(s.args)} args for {len(f.args)} params")
                return
            for fa, a in zip(f.args, s.args):
                if fa.type.is_numeric():
                    chk_e(a, env, "arg")
                    if isinstance(a, LoopIR.Read):
                        if a.idx:
                            err(f"call {f.name}: indexed read passed for numeric param {fa.name}")
                        elif a.name in env:
                            kind, r = env[a.name]
                            if kind == "ctrl" or r != rank_of(fa.type):
                                err(f"call {f.name}: arg {a.name!r} rank {r} for param {fa.name} rank {rank_of(fa.type)}")
                    elif isinstance(a, LoopIR.WindowExpr):
                        if sum(1 for w in a.idx if isinstance(w, LoopIR.Interval)) != rank_of(fa.type):
                            err(f"call {f.name}: window arg rank {rank_of(a.type)} for param {fa.name} rank {rank_of(fa.type)}")
                    elif isinstance(a, LoopIR.ReadConfig):
                        pass
                    else:
                        err(f"call {f.name}: non-buffer expression {type(a).__name__} for numeric param {fa.name}")
                else:
                    chk_e(a, env, "index" if fa.type.is_indexable() else None)
                    if fa.type.is_indexable() and not (a.type.is_indexable()):
                        err(f"call {f.name}: non-index arg for {fa.name}")
                    if isinstance(fa.type, T.Bool) and not isinstance(a.type, T.Bool):
                        err(f"call {f.name}: non-bool arg for {fa.name}")
            if deep and id(f) not in validated:
                validated.add(id(f))
                for pr in validate(f, deep=True, validated=validated):
                    err(f"in callee {f.name}: {pr}")
        else:
            err(f"unknown statement {type(s).__name__}")

    env = {}
    for a in proc.args:
        if a.type.is_numeric():
            chk_type_exprs(a.type, env)
            bind(env, a.name, ("data", rank_of(a.type)), "argument")
        else:
            bind(env, a.name, ("ctrl", 0), "argument")
    for pr in proc.preds:
        chk_e(pr, env)
    chk_block(proc.body, env)
    return probs

