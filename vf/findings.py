"""Narrow structural predicates ("causes") attached to violation signatures.

A known finding in known_findings.json matches on (property, op, kind, cause,
...).  Causes are computed from the failing case itself (source procedure,
event, result, difference) and name the structural feature that triggers the
root cause, so that a different violation of the same property by the same
primitive is still reported."""
import re

from exo.core.LoopIR import LoopIR, T

from . import irx, wf


def binder_kind(proc_ir, symrepr):
    """how is the Sym printed as `name_id` bound in proc_ir? -> iter|alloc|window|arg|None"""
    for a in proc_ir.args:
        if repr(a.name) == symrepr:
            return "arg"
    for _, s in irx.all_stmts(proc_ir):
        if isinstance(s, LoopIR.For) and repr(s.iter) == symrepr:
            return "iter"
        if isinstance(s, LoopIR.Alloc) and repr(s.name) == symrepr:
            return "alloc"
        if isinstance(s, LoopIR.WindowStmt) and repr(s.name) == symrepr:
            return "window"
    return None


def _norm(msg):
    msg = re.sub(r"\b(\w+?)_\d+\b", "V", msg)
    msg = re.sub(r"\d+", "N", msg)
    return msg[:80]


def block_stmts(p_ir, spec):
    """statements denoted by a block/node spec of an event in p"""
    try:
        n = p_ir
        for attr, i in spec["p"]:
            n = getattr(n, attr)
            if i is not None:
                n = n[i]
        if spec["t"] == "block":
            return list(getattr(n, spec["attr"])[spec["lo"]:spec["hi"]])
        return [n]
    except Exception:
        return []


def _reads_of(stmts, name):
    """does any statement in stmts read buffer `name` (incl. reduce)?"""
    found = []

    def ve(e):
        if isinstance(e, (LoopIR.Read, LoopIR.WindowExpr)) and str(e.name) == name:
            found.append(e)
        for _, _, c in irx.expr_children_attr(e):
            ve(c)
        if isinstance(e, LoopIR.WindowExpr):
            for w in e.idx:
                for x in ([w.pt] if isinstance(w, LoopIR.Point) else [w.lo, w.hi]):
                    ve(x)

    def vs(s):
        if isinstance(s, LoopIR.Reduce) and str(s.name) == name:
            found.append(s)
        for _, _, e in irx.expr_children_attr(s):
            ve(e)
        for _, _, c in irx.stmt_children(s):
            vs(c)

    for s in stmts:
        vs(s)
    return bool(found)


def _new_alloc_sym(p_ir, q_ir, new):
    """the Sym of the allocation named `new` that q has and p has not (None if not unique)"""
    old = {id(s.name) for _, s in irx.all_stmts(p_ir) if isinstance(s, LoopIR.Alloc)}
    old_syms = {s.name for _, s in irx.all_stmts(p_ir) if isinstance(s, LoopIR.Alloc)}
    cands = []
    for _, s in irx.all_stmts(q_ir):
        if isinstance(s, LoopIR.Alloc) and str(s.name) == new and s.name not in old_syms and s.name not in cands:
            cands.append(s.name)
    return cands[0] if len(cands) == 1 else None


def _staged_read_in_block(q_ir, new, buf, new_sym=None):
    """is the staging buffer `new` read anywhere except in the store-back `buf[..] = new[..]`?
    (identified by Sym when the caller could determine it: the name may clash with an older buffer)"""
    hit = []

    def is_new(nm):
        return (nm == new_sym) if new_sym is not None else (str(nm) == new)

    def ve(e):
        if isinstance(e, (LoopIR.Read, LoopIR.WindowExpr)) and is_new(e.name):
            hit.append(e)
        for _, _, c in irx.expr_children_attr(e):
            ve(c)

    def vs(s):
        if isinstance(s, LoopIR.Reduce) and is_new(s.name):
            hit.append(s)
        if isinstance(s, (LoopIR.Assign, LoopIR.Reduce)) and str(s.name) == buf and isinstance(s.rhs, LoopIR.Read) and is_new(s.rhs.name):
            for i in s.idx:
                ve(i)
        else:
            for _, _, e in irx.expr_children_attr(s):
                ve(e)
        for _, _, c in irx.stmt_children(s):
            vs(c)

    for s in q_ir.body:
        vs(s)
    return bool(hit)


def _writes_and_reads(stmts):
    """-> (set of names written/reduced, set of names read, has_reduce) over a statement list (deep)"""
    w, r, red = set(), set(), [False]

    def ve(e):
        if isinstance(e, (LoopIR.Read, LoopIR.WindowExpr)):
            r.add(str(e.name))
        for _, _, c in irx.expr_children_attr(e):
            ve(c)

    def vs(s_):
        if isinstance(s_, LoopIR.Assign):
            w.add(str(s_.name))
        if isinstance(s_, LoopIR.Reduce):
            w.add(str(s_.name))
            red[0] = True
        if isinstance(s_, LoopIR.WriteConfig):
            w.add("cfg:" + str(s_.field))
        if isinstance(s_, LoopIR.Call):
            red[0] = True  # unknown effect
        for _, _, e in irx.expr_children_attr(s_):
            ve(e)
        for _, _, c in irx.stmt_children(s_):
            vs(c)

    for s_ in stmts:
        vs(s_)
    return w, r, red[0]


def _body_not_idempotent(body):
    """re-executing an iteration may change the result: the body reduces, calls, or reads a buffer it writes"""
    w, r, red = _writes_and_reads(body)
    return red or bool(w & r)


def _aliased_access_in_block(p_ir, blk, buf):
    """does the block access `buf` through a window statement declared outside the block?"""
    alias = set()
    for _, s_ in irx.all_stmts(p_ir):
        if isinstance(s_, LoopIR.WindowStmt) and (str(s_.rhs.name) == buf or str(s_.rhs.name) in alias):
            alias.add(str(s_.name))
    if not alias:
        return False
    inner = {str(s_.name) for s_ in _flatten(blk) if isinstance(s_, LoopIR.WindowStmt)}
    w, r, _ = _writes_and_reads(blk)
    return bool(((w | r) & alias) - inner)


def _flatten(stmts):
    out = []
    for s_ in stmts:
        out.append(s_)
        out += _flatten([c for _, _, c in irx.stmt_children(s_)])
    return out


def _has_top_binder(stmts):
    return any(isinstance(s, (LoopIR.Alloc, LoopIR.WindowStmt)) for s in stmts)


def _first_spec(ev):
    for a in ev.get("a", []):
        if isinstance(a, dict) and a.get("t") in ("block", "node", "gap"):
            return a
        if isinstance(a, list) and a and isinstance(a[0], dict) and a[0].get("t") in ("block", "node"):
            return a[0]
    return None


def cause_of(ev, p, q, kind, detail=None):
    """-> short cause string (never None)"""
    op = ev["op"]
    p_ir = p._loopir_proc
    q_ir = q._loopir_proc if q is not None else None
    parts = []
    spec = _first_spec(ev)
    blk = block_stmts(p_ir, spec) if spec and spec.get("t") != "gap" else []

    if kind in ("unbound-variable", "unbound") and q_ir is not None:
        probs = wf.validate(q_ir)
        m = None
        for pr in probs:
            m = re.search(r"unbound (?:variable|source buffer) (\w+)", pr)
            if m:
                parts.append("unbound-" + str(binder_kind(p_ir, m.group(1))))
                parts.append(_ctx_of(pr))
                break
        if _has_top_binder(blk):
            parts.append("block-has-binder")
    if kind in ("value-mismatch", "uninit"):
        after = (detail or {}).get("after", "")
        if kind == "uninit" or "undef" in str(after):
            parts.append("result-undefined")
    if op in ("stage_mem", "std.auto_stage_mem"):
        buf = None
        for a in ev.get("a", []):
            if isinstance(a, str):
                buf = a.split("[")[0]
                break
        new = None
        strs = [a for a in ev.get("a", []) if isinstance(a, str)]
        if len(strs) >= 2:
            new = strs[1]
        if buf is not None and new is not None and q_ir is not None:
            if _aliased_access_in_block(p_ir, blk, buf):
                parts.append("aliased-access-in-block")
            nsym = _new_alloc_sym(p_ir, q_ir, new)
            parts.append("staged-copy-read-in-block" if _staged_read_in_block(q_ir, new, buf, nsym) else "staged-copy-only-written")
    if op == "sink_alloc" and spec:
        # the statement after the allocation is an if with an else branch (the else copy gets a fresh,
        # unused Sym -- tests/golden/test_schedules/test_sink_alloc_when_if_has_else.txt pins that output)
        try:
            par = block_stmts(p_ir, {"t": "block", "p": spec["p"][:-1], "attr": spec["p"][-1][0], "lo": spec["p"][-1][1] + 1, "hi": spec["p"][-1][1] + 2})
            if par and isinstance(par[0], LoopIR.If) and par[0].orelse:
                parts.append("scope-has-else")
        except Exception:
            pass
    if op in ("inline_assign",) and blk:
        s = blk[0]
        if isinstance(s, LoopIR.Assign):
            bk = binder_kind(p_ir, repr(s.name))
            parts.append("target-" + str(bk))
    if op in ("remove_loop", "std.hoist_stmt", "std.hoist_from_loop") and blk:
        s = blk[0]
        # zero-trip literal/symbolic loop `seq(e, e)`
        loop = s if isinstance(s, LoopIR.For) else _enclosing_loop(p_ir, spec)
        if loop is not None and str(loop.lo) == str(loop.hi):
            parts.append("loop-lo-eq-hi")
    if op in ("join_loops", "replace", "std.replace_all", "std.replace_all_stmts", "fuse"):
        parts.append(_body_len_feature(ev, p_ir, blk))
    if op in ("bind_expr", "bind_config") and spec and spec["p"] and spec["p"][-1][0] == "args":
        parts.append("binds-call-argument")
    if op in ("write_config", "bind_config", "delete_config") and spec:
        if _enclosing_loop(p_ir, {"p": list(spec["p"]) + [["x", 0]]}) is not None:
            parts.append("inside-loop")
    if blk and isinstance(blk[0], LoopIR.For):
        loop = blk[0]
        for _, st in irx.all_stmts(type("P", (), {"body": loop.body})):
            if isinstance(st, LoopIR.Alloc) and any(str(loop.iter) in str(h) for h in st.type.shape()):
                parts.append("alloc-extent-uses-iter")
                break
    if op == "divide_with_recompute":
        a = ev.get("a", [])
        if len(a) >= 2 and isinstance(a[1], str) and "/" in a[1]:
            parts.append("outer-hi-may-be-zero")
        # precise trigger: on the failing input the outer extent is 0, or the divided loop starts above 0
        try:
            inp = (detail or {}).get("input") or {}
            ctrl = (inp[0] if isinstance(inp, (tuple, list)) else inp.get("ctrl")) or {}
            val = eval(str(a[1]).replace("/", "//"), {"__builtins__": {}}, dict(ctrl))
            if val <= 0:
                parts.append("outer-extent-zero-on-failing-input")
        except Exception:
            pass
        if blk and isinstance(blk[0], LoopIR.For) and not (isinstance(blk[0].lo, LoopIR.Const) and blk[0].lo.val == 0):
            parts.append("loop-lo-nonzero")
        if blk and isinstance(blk[0], LoopIR.For) and _body_not_idempotent(blk[0].body):
            parts.append("body-not-idempotent")
    return ",".join(x for x in parts if x) or "-"


def _ctx_of(problem):
    for k in ("alloc-type", "window type", "in read", "write to", "in window", "in stride"):
        if k in problem:
            return "use:" + k.replace(" ", "-")
    return "use:other"


def _enclosing_loop(p_ir, spec):
    n = p_ir
    loop = None
    try:
        for attr, i in spec["p"][:-1]:
            n = getattr(n, attr)
            if i is not None:
                n = n[i]
            if isinstance(n, LoopIR.For):
                loop = n
    except Exception:
        pass
    return loop


def _body_len_feature(ev, p_ir, blk):
    # join_loops / fuse: two node specs
    specs = [a for a in ev.get("a", []) if isinstance(a, dict) and a.get("t") == "node"]
    if len(specs) == 2:
        a = block_stmts(p_ir, specs[0])
        b = block_stmts(p_ir, specs[1])
        if a and b and hasattr(a[0], "body") and hasattr(b[0], "body"):
            if len(a[0].body) != len(b[0].body):
                return "bodies-differ-in-length"
        return "bodies-same-length"
    if blk:
        return f"block-len-{min(len(blk), 3)}"
    return ""


def where_of(ev, p):
    """location tags of the event's first cursor argument (kept apart from the cause)"""
    spec = _first_spec(ev)
    tags = []
    if spec and (any(a == "orelse" for a, _ in spec["p"]) or spec.get("attr") == "orelse"):
        tags.append("else-branch")
        try:
            if p.has_dup():
                tags.append("shared-nodes")
        except Exception:
            pass
    return ",".join(tags) or "-"


def known_region(ev, p):
    """-> predicate on a valuation (ctrl, layouts, cfg0) that is true where a recorded known finding of this
    event is triggered BY THE INPUT (not by the structure of the event), or None.  The oracles keep scanning
    the valuations outside that region, so a different defect of the same primitive is still reported."""
    if ev["op"] == "divide_with_recompute":
        a = ev.get("a", [])
        if len(a) >= 2:
            src = str(a[1]).replace("/", "//")

            def pred(val):
                try:
                    return eval(src, {"__builtins__": {}}, dict(val[0])) <= 0
                except Exception:
                    return False

            return pred
    return None
