"""./check <ID> <quick|thorough>   |   ./check replay <file>"""
import importlib
import json
import os
import sys
import traceback

from .report import Report

LEVELS = {
    "C01": "model_checking", "C02": "translation_validation", "C03": "exploration",
    "C04": "model_checking", "C05": "model_checking", "C06": "model_checking",
    "C07": "model_checking", "C08": "exploration", "C09": "exploration",
    "C10": "model_checking", "C11": "model_checking", "C12": "exploration",
    "C13": "exploration", "C14": "exploration", "C15": "exploration",
    "C16": "exploration", "C17": "model_checking", "C18": "exploration",
    "C19": "exploration",
}


def main(argv):
    if len(argv) >= 2 and argv[0] == "replay":
        with open(argv[1]) as f:
            art = json.load(f)
        mod = importlib.import_module(f"vf.checks.{art['property'].lower()}")
        return mod.replay(art)
    prop = argv[0].upper()
    tier = argv[1] if len(argv) > 1 else os.environ.get("VERIF_TIER", "quick")
    seed = int(os.environ.get("VERIF_SEED", "0") or 0)
    rep = Report(prop, tier, seed, LEVELS[prop])
    try:
        mod = importlib.import_module(f"vf.checks.{prop.lower()}")
        mod.run(rep)
    except Exception:
        traceback.print_exc()
        rep.harness_error("check crashed: " + traceback.format_exc().splitlines()[-1])
    return rep.finish()


if __name__ == "__main__":
    sys.exit(main(sys.argv[1:]))
