"""Canonical normal form for real-valued data: multivariate polynomials with
Fraction coefficients over opaque atoms.  Equality of normal forms is equality
as real functions under the ring axioms (the algebra Exo rewrites may use)."""
from fractions import Fraction

_atom_ids = {}
_atom_rev = []


def atom_id(key):
    """intern a hashable atom description -> small int"""
    i = _atom_ids.get(key)
    if i is None:
        i = len(_atom_rev)
        _atom_ids[key] = i
        _atom_rev.append(key)
    return i


def atom_key(i):
    return _atom_rev[i]


def reset_atoms():
    _atom_ids.clear()
    _atom_rev.clear()


class Poly:
    __slots__ = ("t", "_k")

    def __init__(self, terms):
        # terms: dict monomial(tuple of (atom,exp) sorted) -> Fraction (nonzero)
        self.t = terms
        self._k = None

    @staticmethod
    def const(c):
        c = Fraction(c)
        return Poly({(): c}) if c != 0 else Poly({})

    @staticmethod
    def atom(key):
        return Poly({((atom_id(key), 1),): Fraction(1)})

    def is_const(self):
        return not self.t or (len(self.t) == 1 and () in self.t)

    def const_val(self):
        return self.t.get((), Fraction(0))

    def key(self):
        if self._k is None:
            self._k = tuple(sorted(self.t.items()))
        return self._k

    def __eq__(self, o):
        return isinstance(o, Poly) and self.t == o.t

    def __hash__(self):
        return hash(self.key())

    def __add__(self, o):
        r = dict(self.t)
        for m, c in o.t.items():
            v = r.get(m)
            if v is None:
                r[m] = c
            else:
                v = v + c
                if v == 0:
                    del r[m]
                else:
                    r[m] = v
        return Poly(r)

    def __neg__(self):
        return Poly({m: -c for m, c in self.t.items()})

    def __sub__(self, o):
        return self + (-o)

    def scale(self, c):
        c = Fraction(c)
        if c == 0:
            return Poly({})
        return Poly({m: v * c for m, v in self.t.items()})

    def __mul__(self, o):
        if len(self.t) > len(o.t):
            self, o = o, self
        r = {}
        for m1, c1 in self.t.items():
            for m2, c2 in o.t.items():
                m = _mul_mono(m1, m2)
                v = r.get(m)
                c = c1 * c2
                if v is None:
                    r[m] = c
                else:
                    v = v + c
                    if v == 0:
                        del r[m]
                    else:
                        r[m] = v
        return Poly(r)

    def div(self, o):
        if o.is_const():
            c = o.const_val()
            if c == 0:
                return Poly.atom(("div0", self.key()))
            return self.scale(1 / c)
        if not self.t:
            return self
        if self.t == o.t:
            return Poly.const(1)
        # single-term denominators: keep a/b as a * inv(b) so that products commute
        return self * Poly.atom(("inv", o.key()))

    def atoms(self):
        s = set()
        for m in self.t:
            for a, _ in m:
                s.add(a)
        return s

    def has_undef(self):
        for a in self.atoms():
            if _mentions_undef(atom_key(a)):
                return True
        return False

    def __repr__(self):
        return poly_str(self)


def _mentions_undef(k):
    if isinstance(k, tuple):
        if k and k[0] == "undef":
            return True
        if k and k[0] in ("inv", "ext", "div0"):
            return _key_mentions_undef(k)
    return False


def _key_mentions_undef(k):
    # walk nested tuples looking for atom ids inside poly keys
    if isinstance(k, tuple):
        if len(k) and k[0] == "undef":
            return True
        if k and k[0] == "inv":
            return _polykey_undef(k[1])
        if k and k[0] == "div0":
            return _polykey_undef(k[1])
        if k and k[0] == "ext":
            return any(_polykey_undef(a) for a in k[2])
    return False


def _polykey_undef(pk):
    for mono, _ in pk:
        for a, _e in mono:
            if _mentions_undef(atom_key(a)):
                return True
    return False


def _mul_mono(m1, m2):
    if not m1:
        return m2
    if not m2:
        return m1
    d = dict(m1)
    for a, e in m2:
        d[a] = d.get(a, 0) + e
    return tuple(sorted(d.items()))


def _atom_str(a):
    k = atom_key(a)
    if isinstance(k, tuple):
        if k[0] == "in":
            return f"{k[1]}{list(k[2:])}" if len(k) > 2 else str(k[1])
        if k[0] == "undef":
            return f"undef#{k[1]}"
        if k[0] == "inv":
            return f"inv({polykey_str(k[1])})"
        if k[0] == "div0":
            return f"div0({polykey_str(k[1])})"
        if k[0] == "ext":
            return f"{k[1]}({', '.join(polykey_str(x) for x in k[2])})"
    return str(k)


def polykey_str(pk):
    if not pk:
        return "0"
    out = []
    for mono, c in pk:
        fs = [f"{_atom_str(a)}" + (f"^{e}" if e != 1 else "") for a, e in mono]
        if c != 1 or not fs:
            fs.insert(0, str(c))
        out.append("*".join(fs))
    return " + ".join(out)


def poly_str(p):
    return polykey_str(p.key())
