"""Control-input domains and the equivalence / safety oracles built on the
reference interpreter."""
import itertools

from exo.core.LoopIR import LoopIR, T

from . import interp
from .poly import poly_str, Poly


def proc_configs(proc, seen=None, out=None):
    """all (config, field) pairs mentioned in proc or callees (IR walk)"""
    if out is None:
        out = {}
        seen = set()
    if id(proc) in seen:
        return out
    seen.add(id(proc))

    def do_e(e):
        if isinstance(e, LoopIR.ReadConfig):
            out[(e.config.name(), e.field)] = e.config.lookup_type(e.field)
        for ch in _expr_children(e):
            do_e(ch)

    def do_s(s):
        if isinstance(s, LoopIR.WriteConfig):
            out[(s.config.name(), s.field)] = s.config.lookup_type(s.field)
        if isinstance(s, LoopIR.Call):
            proc_configs(s.f, seen, out)
        for e in _stmt_exprs(s):
            do_e(e)
        for b in _stmt_blocks(s):
            for x in b:
                do_s(x)

    for p in proc.preds:
        do_e(p)
    for s in proc.body:
        do_s(s)
    return out


def _expr_children(e):
    if isinstance(e, LoopIR.Read):
        return list(e.idx)
    if isinstance(e, LoopIR.USub):
        return [e.arg]
    if isinstance(e, LoopIR.BinOp):
        return [e.lhs, e.rhs]
    if isinstance(e, LoopIR.Extern):
        return list(e.args)
    if isinstance(e, LoopIR.WindowExpr):
        r = []
        for w in e.idx:
            if isinstance(w, LoopIR.Point):
                r.append(w.pt)
            else:
                r += [w.lo, w.hi]
        return r
    return []


def _stmt_exprs(s):
    if isinstance(s, (LoopIR.Assign, LoopIR.Reduce)):
        return list(s.idx) + [s.rhs]
    if isinstance(s, LoopIR.WriteConfig):
        return [s.rhs]
    if isinstance(s, LoopIR.If):
        return [s.cond]
    if isinstance(s, LoopIR.For):
        return [s.lo, s.hi]
    if isinstance(s, LoopIR.Alloc):
        return list(s.type.shape())
    if isinstance(s, LoopIR.Call):
        return list(s.args)
    if isinstance(s, LoopIR.WindowStmt):
        return [s.rhs]
    return []


def _stmt_blocks(s):
    if isinstance(s, LoopIR.If):
        return [s.body, s.orelse]
    if isinstance(s, LoopIR.For):
        return [s.body]
    return []


def control_domain(proc, sizes=(1, 2, 3), idxs=(-1, 0, 1, 2), cfg_vals=(0, 1, 2),
                   layouts=("dense",), max_vals=400, extra_cfg=None):
    """enumerate (ctrl, layouts, cfg0) valuations.  Deterministic order."""
    names, doms = [], []
    for fa in proc.args:
        ty = fa.type
        nm = str(fa.name)
        if ty.is_numeric():
            continue
        if isinstance(ty, T.Size):
            doms.append(list(sizes))
        elif isinstance(ty, T.Bool):
            doms.append([False, True])
        else:
            doms.append(list(idxs))
        names.append(nm)
    wins = [str(fa.name) for fa in proc.args
            if fa.type.is_numeric() and fa.type.is_tensor_or_window() and fa.type.is_win()]
    cfgs = proc_configs(proc)
    if extra_cfg:
        cfgs.update(extra_cfg)
    ckeys, cdoms = [], []
    for k, ty in sorted(cfgs.items()):
        if ty.is_real_scalar():
            continue
        ckeys.append(k)
        if isinstance(ty, T.Bool):
            cdoms.append([False, True])
        elif isinstance(ty, T.Size):
            cdoms.append([v for v in cfg_vals if v >= 1] or [1])
        else:
            cdoms.append(list(cfg_vals))
    lay_choices = [dict(zip(wins, [l] * len(wins))) for l in layouts] if wins else [{}]
    n = 0
    for vals in itertools.product(*doms):
        ctrl = dict(zip(names, vals))
        for cv in itertools.product(*cdoms):
            cfg0 = dict(zip(ckeys, cv))
            for lay in lay_choices:
                yield ctrl, lay, cfg0
                n += 1
                if n >= max_vals:
                    return


def run_all(proc, dom_kwargs=None, **kw):
    """run proc on its whole control domain; returns list of (val, RunResult)
    skipping valuations that violate the preconditions"""
    out = []
    for ctrl, lay, cfg0 in control_domain(proc, **(dom_kwargs or {})):
        try:
            r = interp.run_proc(proc, ctrl, lay, cfg0, **kw)
        except ValueError:
            continue
        out.append(((ctrl, lay, cfg0), r))
    return out


# alloc_size (extent < 1) is recorded by the interpreter but is not among the things the
# properties name, so it is not a safety violation here
SAFETY_KINDS = ("oob", "oob_base", "call_pred", "call_size", "call_shape", "call_dense",
                "alias", "neg_loop", "div0")


def compare_runs(rp, rq, exempt_cfg=()):
    """rp, rq RunResults of source and derived proc on the same valuation.
    returns None if equivalent, 'vacuous' if the source misbehaves, else a
    dict describing the first difference."""
    if rp.abort or any(k in SAFETY_KINDS for k, _ in rp.mon):
        return "vacuous"
    if rq.abort:
        if rq.abort.startswith("unbound-variable"):
            return {"kind": "unbound-variable", "detail": rq.abort}
        return {"kind": "abort", "detail": rq.abort}
    if set(rp.outs) != set(rq.outs):
        return {"kind": "signature", "detail": f"{sorted(rp.outs)} vs {sorted(rq.outs)}"}
    for nm in rp.outs:
        a, b = rp.outs[nm], rq.outs[nm]
        if len(a) != len(b):
            return {"kind": "size", "detail": nm}
        for i, (x, y) in enumerate(zip(a, b)):
            if x is None and y is None:
                continue
            if x is not None and x.has_undef():
                continue  # source cell undefined: anything goes
            if x is None or y is None or x != y:
                return {"kind": "value-mismatch", "cell": f"{nm}@{i}",
                        "before": "unset" if x is None else poly_str(x),
                        "after": "unset" if y is None else poly_str(y)}
    ex = set(exempt_cfg)
    for k in set(rp.cfg) | set(rq.cfg):
        if k in ex:
            continue
        x, y = rp.cfg.get(k), rq.cfg.get(k)
        if isinstance(x, Poly) and x.has_undef():
            continue
        if x != y:
            return {"kind": "config-mismatch", "cell": f"{k[0]}.{k[1]}",
                    "before": str(x), "after": str(y)}
    return None


def new_safety(rp, rq):
    """monitor kinds present in q but not in p (p clean)"""
    kp = {k for k, _ in rp.mon}
    out = []
    for k, d in rq.mon:
        if k in SAFETY_KINDS and k not in kp:
            out.append((k, d))
    return out
