"""Helpers to feed generated Exo source text through the real front end."""
import __future__
import itertools
import linecache
import textwrap

_counter = itertools.count()

PRELUDE = """
from __future__ import annotations
from exo import proc, instr, config, DRAM, Procedure
from exo.libs.memories import DRAM_STACK, DRAM_STATIC, MDRAM, AVX2, AVX512
from exo.libs.externs import sin, relu, select, expf, fmaxf, sigmoid, sqrt
from exo.stdlib.scheduling import *
"""


def exec_src(src, ns=None, tag="gen"):
    """exec python source with a linecache entry so inspect.getsource works.
    returns the namespace."""
    src = textwrap.dedent(src)
    fname = f"<vf-{tag}-{next(_counter)}>"
    linecache.cache[fname] = (len(src), None, src.splitlines(True), fname)
    if ns is None:
        import sys, types
        modname = f"vf_gen_mod_{next(_counter)}"
        mod = types.ModuleType(modname)
        mod.__file__ = fname
        sys.modules[modname] = mod
        ns = mod.__dict__
    if "proc" not in ns:
        exec(compile(PRELUDE, "<vf-prelude>", "exec"), ns)
    exec(compile(src, fname, "exec", flags=__future__.annotations.compiler_flag), ns)
    return ns


def mkprocs(src, ns=None, tag="gen"):
    """define everything in src; returns namespace"""
    return exec_src(src, ns, tag)


def mkproc(src, name=None, ns=None, tag="gen"):
    ns = exec_src(src, ns, tag)
    if name is None:
        # last def in the text
        import re

        names = re.findall(r"^def\s+(\w+)", textwrap.dedent(src), re.M)
        name = names[-1]
    return ns[name]
