"""Run one C18 session in this (fresh) interpreter with a given variant and
print a JSON list of (label, text) outputs."""
import json
import os
import sys


def apply_variant(v):
    from exo.core.prelude import Sym

    off = int(v.get("sym_offset", 0))
    if off:
        Sym._unq_count += off
    salt = int(v.get("salt", 0))
    if salt:
        # own the iteration order of sets/dicts keyed by Syms and procs
        Sym.__hash__ = lambda self, salt=salt: hash((self._id * 2654435761 + salt * 40503) & 0xFFFFFFF)
        from exo.core.LoopIR import LoopIR

        LoopIR.proc.__hash__ = lambda self, salt=salt: hash(((id(self) >> 4) * 2654435761 + salt * 97) & 0xFFFFFFF)
    hist = v.get("history", "none")
    if hist != "none":
        from vf.exoutil import mkprocs

        order = v.get("order", [0, 1, 2])
        defs = ["""
@proc
def unrelated_a(n: size, q: f32[n]):
    for i in seq(0, n):
        q[i] = 1.0
""", """
@proc
def unrelated_b(n: size, q: f64[n, 2], r: [f64][n]):
    for i in seq(0, n):
        r[i] = q[i, 0] + q[i, 1]
""", """
@proc
def unrelated_c(x: i8[8]):
    for i in seq(0, 8):
        x[i] = 0.0
"""]
        ns = mkprocs("\n".join(defs[i] for i in order), tag="hist")
        if hist in ("schedules", "same-first"):
            from exo.stdlib.scheduling import divide_loop, simplify, unroll_loop
            from exo.API import compile_procs_to_strings

            p = simplify(divide_loop(ns["unrelated_a"], "i", 2, ["io", "ii"], tail="cut"))
            q = unroll_loop(ns["unrelated_c"], "i")
            compile_procs_to_strings([p, q, ns["unrelated_b"]], "other.h")
    return hist


def main():
    name = sys.argv[1]
    v = json.loads(sys.argv[2])
    sys.path.insert(0, os.path.dirname(os.path.dirname(os.path.abspath(__file__))))
    hist = apply_variant(v)
    from vf import sessions

    if hist == "same-first":
        sessions.run_session(name)
    outs = sessions.run_session(name)
    json.dump(outs, sys.stdout)


if __name__ == "__main__":
    main()
