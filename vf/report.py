"""Violation collection, known-findings matching, evidence writing."""
import hashlib
import json
import os
import re
import subprocess
import sys
import time

VERIF = os.path.dirname(os.path.dirname(os.path.abspath(__file__)))
REPLAYS = os.path.join(os.environ["VF_EVIDENCE_DIR"], "replays") if os.environ.get("VF_EVIDENCE_DIR") else os.path.join(VERIF, "replays")
# VF_EVIDENCE_DIR: mutation tooling only (runs against a patched scratch worktree must not touch the real evidence)
EVIDENCE = os.environ.get("VF_EVIDENCE_DIR") or os.path.join(VERIF, "evidence")
KF_FILE = os.path.join(VERIF, "known_findings.json")


def load_known():
    if not os.path.exists(KF_FILE):
        return []
    with open(KF_FILE) as f:
        return json.load(f)["findings"]


def _match(entry, prop, sig):
    if entry.get("status") != "open" or entry.get("property") != prop:
        return False
    for k, pat in entry.get("match", {}).items():
        v = sig.get(k)
        if v is None:
            return False
        if isinstance(pat, dict) and "re" in pat:
            if not re.search(pat["re"], str(v), re.S):
                return False
        elif isinstance(pat, list):
            if v not in pat:
                return False
        elif v != pat:
            return False
    return True


class Report:
    def __init__(self, prop, tier, seed, level):
        self.prop = prop
        self.tier = tier
        self.seed = seed
        self.level = level
        self.t0 = time.time()
        self.cov = {}
        self.assumptions = []
        self.violations = []  # (sig, artefact)
        self.known_hits = {}  # kf id -> count
        self.known = load_known()
        self.harness_errors = []
        self._vio_keys = set()

    # coverage helpers
    def count(self, key, n=1):
        self.cov[key] = self.cov.get(key, 0) + n

    def set(self, key, v):
        self.cov[key] = v

    def sample(self, s, limit=6):
        l = self.cov.setdefault("samples", [])
        if len(l) < limit:
            l.append(s)

    def violation(self, sig, artefact):
        """sig: small dict of classification fields (used to match known
        findings and to de-duplicate).  artefact: full replayable JSON."""
        for e in self.known:
            if _match(e, self.prop, sig):
                self.known_hits[e["id"]] = self.known_hits.get(e["id"], 0) + 1
                return "known"
        key = json.dumps(sig, sort_keys=True, default=str)
        if key in self._vio_keys:
            return "dup"
        self._vio_keys.add(key)
        self.violations.append((sig, artefact))
        return "new"

    def harness_error(self, msg):
        self.harness_errors.append(msg)

    def finish(self):
        os.makedirs(EVIDENCE, exist_ok=True)
        wall = time.time() - self.t0
        for e in self.known:
            if e["id"] in self.known_hits:
                print(f"KNOWN-FINDING: property={self.prop} {e['id']} {e['what']} (x{self.known_hits[e['id']]})")
        paths = []
        if self.violations:
            os.makedirs(REPLAYS, exist_ok=True)
        for sig, art in self.violations[:25]:
            h = hashlib.sha1(json.dumps(sig, sort_keys=True, default=str).encode()).hexdigest()[:10]
            path = os.path.join(REPLAYS, f"{self.prop}-{h}.json")
            art = dict(art)
            art["property"] = self.prop
            art["sig"] = sig
            art["verif_seed"] = self.seed
            with open(path, "w") as f:
                json.dump(art, f, indent=1, default=str)
            paths.append(path)
            print(f"VIOLATION property={self.prop} replay={path}")
            print("   " + json.dumps(sig, default=str)[:400])
        if self.violations:
            with open(os.path.join(REPLAYS, f"{self.prop}-all.json"), "w") as f:
                json.dump([{"sig": s_, "art": a_} for s_, a_ in self.violations[:3000]], f, default=str)
        if len(self.violations) > 25:
            print(f"... {len(self.violations) - 25} further distinct violations not written")
        cov = dict(self.cov)
        cov.setdefault("samples", [])
        if not cov["samples"]:
            cov["samples"] = ["(no sample recorded)"]
        cov["known_finding_hits"] = dict(self.known_hits)
        cov["harness_errors"] = len(self.harness_errors)
        if self.harness_errors:
            cov["harness_error_messages"] = [m[-600:] for m in self.harness_errors[:5]]
        ev = {
            "property_id": self.prop,
            "tier": self.tier,
            "seed": self.seed,
            "level": self.level,
            "coverage": cov,
            "assumptions": self.assumptions,
            "wall_s": round(wall, 2),
            "violations": len(self.violations),
        }
        with open(os.path.join(EVIDENCE, f"{self.prop}.json"), "w") as f:
            json.dump(ev, f, indent=1, default=str)
        for m in self.harness_errors[:10]:
            print(f"HARNESS-ERROR: {m}", file=sys.stderr)
        summ = {k: v for k, v in cov.items() if isinstance(v, (int, float, bool))}
        print(f"[{self.prop} {self.tier}] wall={wall:.1f}s violations={len(self.violations)} {json.dumps(summ)}")
        if self.violations:
            return 1
        if self.harness_errors:
            return 2
        return 0
