"""Finite transition alphabet: for a Procedure, the complete list of concrete
(op, args) events of the menu.  Everything is deterministic and serialisable
(cursors as paths, expressions as strings, namespace objects by name)."""
import itertools

from exo.core import internal_cursors as ic
from exo.core.LoopIR import LoopIR, T
from exo.API_cursors import lift_cursor

from . import irx

# --------------------------------------------------------------------------
# cursor specs


def N(path):
    return {"t": "node", "p": [list(x) for x in path]}


def B(ppath, attr, lo, hi):
    return {"t": "block", "p": [list(x) for x in ppath], "attr": attr, "lo": lo, "hi": hi}


def G(path, w):
    return {"t": "gap", "p": [list(x) for x in path], "w": w}


def NS(name):
    return {"t": "ns", "n": name}


def resolve(spec, proc, ns):
    """spec -> real argument object for Procedure `proc`"""
    if isinstance(spec, dict) and "t" in spec:
        t = spec["t"]
        root = proc._loopir_proc
        if t == "node":
            impl = ic.Node(root, [(a, i) for a, i in spec["p"]])
            impl._node  # validate
            return lift_cursor(impl, proc)
        if t == "block":
            par = ic.Node(root, [(a, i) for a, i in spec["p"]])
            par._node
            impl = ic.Block(root, par, spec["attr"], range(spec["lo"], spec["hi"]))
            return lift_cursor(impl, proc)
        if t == "gap":
            anchor = ic.Node(root, [(a, i) for a, i in spec["p"]])
            anchor._node
            impl = ic.Gap(root, anchor, ic.GapType.Before if spec["w"] == "before" else ic.GapType.After)
            return lift_cursor(impl, proc)
        if t == "ns":
            return ns[spec["n"]]
        raise ValueError(spec)
    if isinstance(spec, list):
        return [resolve(x, proc, ns) for x in spec]
    return spec


def apply_event(proc, ev, ns):
    """run one event on the REAL implementation"""
    from exo.stdlib import scheduling as S

    fn = OPS[ev["op"]]
    args = [resolve(a, proc, ns) for a in ev.get("a", [])]
    kw = {k: resolve(v, proc, ns) for k, v in ev.get("k", {}).items()}
    return fn(proc, *args, **kw)


def _ops_table():
    from exo.stdlib import scheduling as S
    from exo.stdlib import stdlib as L

    t = {}
    for nm in ["simplify", "rename", "make_instr", "insert_pass", "delete_pass", "reorder_stmts", "rewrite_expr",
               "bind_expr", "commute_expr", "left_reassociate_expr", "extract_subproc", "inline", "replace",
               "call_eqv", "insert_noop_call", "set_precision", "set_window", "set_memory", "bind_config",
               "delete_config", "write_config", "expand_dim", "resize_dim", "rearrange_dim", "divide_dim",
               "mult_dim", "sink_alloc", "lift_alloc", "delete_buffer", "reuse_buffer", "inline_window",
               "stage_mem", "unroll_buffer", "parallelize_loop", "divide_with_recompute", "divide_loop",
               "mult_loops", "cut_loop", "join_loops", "shift_loop", "reorder_loops", "merge_writes",
               "split_write", "fold_into_reduce", "inline_assign", "lift_reduce_constant", "fission", "fuse",
               "remove_loop", "add_loop", "unroll_loop", "lift_scope", "eliminate_dead_code", "specialize",
               "add_unsafe_guard", "autofission", "autolift_alloc"]:
        t[nm] = getattr(S, nm)
    t["extract_subproc0"] = lambda p, *a, **k: S.extract_subproc(p, *a, **k)[0]
    t["partial_eval"] = lambda p, **kw: p.partial_eval(**kw)
    t["transpose"] = lambda p, c: p.transpose(c)
    t["add_assertion"] = lambda p, s: p.add_assertion(s)
    t["unsafe_assert_eq"] = lambda p, q: (p.unsafe_assert_eq(q), p)[1]
    for nm in ["cleanup", "unroll_and_jam", "hoist_stmt", "fission_into_singles", "auto_stage_mem",
               "bound_loop_by_if", "binary_specialize", "cse", "dealias", "round_loop", "cut_loop_and_unroll",
               "hoist_from_loop", "unroll_loops", "unroll_buffers", "replace_all_stmts", "tile_loops",
               "divide_loop_recursive", "reorder_stmt_forward", "reorder_stmt_backwards", "unfold_reduce",
               "undo_divide_and_guard_loop", "interleave_loop", "parallelize_all_reductions"]:
        t["std." + nm] = getattr(L, nm)
    for nm in ["lift_if", "replace_all", "replace_once", "call_site_mem_aware_replace"]:
        t["std." + nm] = getattr(S, nm)
    return t


class _LazyOps(dict):
    def __missing__(self, k):
        self.update(_ops_table())
        if k not in self:
            raise KeyError(k)
        return self[k]


OPS = _LazyOps()

UNSAFE_OPS = {"add_unsafe_guard", "unsafe_assert_eq"}
# operations whose result is deliberately not equivalent in the C01 sense
NON_EQUIV_OPS = {"partial_eval", "transpose", "add_assertion"} | UNSAFE_OPS


def is_safe_event(ev):
    if ev["op"] in NON_EQUIV_OPS:
        return False
    k = ev.get("k", {})
    if k.get("unsafe_disable_check") or k.get("unsafe_disable_checks"):
        return False
    return True


# --------------------------------------------------------------------------
# menu construction


def _enclosing_iters(root, path):
    """names of loop iterators enclosing the statement at path"""
    names = []
    n = root
    for attr, i in path[:-1] if path else []:
        n = getattr(n, attr)
        if i is not None:
            n = n[i]
        if isinstance(n, LoopIR.For):
            names.append(str(n.iter))
    return names


def _ctrl_args(root):
    sizes = [str(a.name) for a in root.args if isinstance(a.type, T.Size)]
    idxs = [str(a.name) for a in root.args if isinstance(a.type, T.Index)]
    return sizes, idxs


def index_exprs(root, path, tier):
    """new-expression alphabet at a site (strings)"""
    sizes, idxs = _ctrl_args(root)
    its = _enclosing_iters(root, path)
    out = ["0", "1", "2"]
    for v in its[-2:]:
        out += [v, f"{v} + 1"]
        if tier != "quick":
            out += [f"{v} - 1"]
    for n in sizes[:1]:
        out += [n, f"{n} - 1", f"{n} / 2"]
        if tier != "quick":
            out += [f"{n} + 1"]
    for k in idxs[:1]:
        out += [k]
    return out


def cond_exprs(root, path, tier):
    sizes, idxs = _ctrl_args(root)
    its = _enclosing_iters(root, path)
    bools = [str(a.name) for a in root.args if isinstance(a.type, T.Bool)]
    out = []
    for v in its[-1:]:
        out += [f"{v} == 0", f"{v} < 1"]
    for n in sizes[:1]:
        out += [f"{n} > 2", f"{n} <= 1"]
    for k in idxs[:1]:
        out += [f"{k} < 1"]
    for b in bools[:1]:
        out += [b]
    return out


def menu(proc, seed, tier="quick", ops=None, include_unsafe=False):
    root = proc._loopir_proc
    stmts = irx.all_stmts(root)
    blocks = irx.all_blocks(root)
    exprs = irx.all_exprs(root)
    ev = []

    def add(op, *a, **k):
        if ops is not None and op not in ops:
            return
        e = {"op": op, "a": list(a)}
        if k:
            e["k"] = k
        ev.append(e)

    fors = [(p, s) for p, s in stmts if isinstance(s, LoopIR.For)]
    ifs = [(p, s) for p, s in stmts if isinstance(s, LoopIR.If)]
    allocs = [(p, s) for p, s in stmts if isinstance(s, LoopIR.Alloc)]
    calls = [(p, s) for p, s in stmts if isinstance(s, LoopIR.Call)]
    assigns = [(p, s) for p, s in stmts if isinstance(s, LoopIR.Assign)]
    reduces = [(p, s) for p, s in stmts if isinstance(s, LoopIR.Reduce)]
    wins = [(p, s) for p, s in stmts if isinstance(s, LoopIR.WindowStmt)]
    wcfgs = [(p, s) for p, s in stmts if isinstance(s, LoopIR.WriteConfig)]
    args_num = [(i, a) for i, a in enumerate(root.args) if a.type.is_numeric()]
    thorough = tier != "quick"

    # ---- blocks of length k
    def blocks_of(lens):
        for ppath, attr, lst in blocks:
            for L in lens:
                for lo in range(0, len(lst) - L + 1):
                    yield ppath, attr, lo, lo + L, lst

    gaps = []
    for p, s in stmts:
        gaps.append(G(p, "before"))
        gaps.append(G(p, "after"))

    # ---- whole-proc ops
    add("simplify")
    add("delete_pass")
    add("rename", "renamed")
    add("std.cleanup")

    # ---- gaps
    for g in gaps:
        add("insert_pass", g)
        add("fission", g)
        if len(g["p"]) >= 2:
            add("fission", g, 2)
        if thorough:
            add("autofission", g, 2)
        if include_unsafe:
            add("fission", g, 1, unsafe_disable_checks=True)
        for cal in seed.callees:
            if cal == "nop":
                for a in args_num:
                    nm = str(a[1].name)
                    if a[1].type.is_tensor_or_window() and len(a[1].type.shape()) == 1:
                        add("insert_noop_call", g, NS(cal), ["1", f"{nm}[0:1]"])
        for cfgn in seed.configs:
            for fld, vals in (("a", ["0", "1"]), ("b", ["1"]), ("f", ["0.0"]), ("t", ["True"])):
                for v in vals:
                    add("write_config", g, NS(cfgn), fld, v)

    # ---- pairs of adjacent statements
    for ppath, attr, lo, hi, lst in blocks_of([2]):
        b = B(ppath, attr, lo, hi)
        add("reorder_stmts", b)
        add("merge_writes", b)
        add("lift_reduce_constant", b)
        p1 = list(ppath) + [(attr, lo)]
        p2 = list(ppath) + [(attr, lo + 1)]
        add("fuse", N(p1), N(p2))
        add("join_loops", N(p1), N(p2))
        if include_unsafe:
            add("fuse", N(p1), N(p2), unsafe_disable_check=True)
    # non-adjacent loop pairs (must refuse)
    for ppath, attr, lst in blocks:
        for i in range(len(lst)):
            for j in range(len(lst)):
                if j != i + 1 and i != j and isinstance(lst[i], LoopIR.For) and isinstance(lst[j], LoopIR.For):
                    add("join_loops", N(list(ppath) + [(attr, i)]), N(list(ppath) + [(attr, j)]))
                    add("fuse", N(list(ppath) + [(attr, i)]), N(list(ppath) + [(attr, j)]))

    # ---- blocks 1..3
    lens = [1, 2, 3] if thorough else [1, 2]
    for ppath, attr, lo, hi, lst in blocks_of(lens):
        b = B(ppath, attr, lo, hi)
        site = list(ppath) + [(attr, lo)]
        add("extract_subproc0", b, "sub_p")
        if thorough:
            add("extract_subproc0", b, "sub_q", False)
        for c in cond_exprs(root, site, tier):
            add("specialize", b, c)
            if include_unsafe:
                add("add_unsafe_guard", b, c)
        for cal in seed.callees:
            if cal != "nop":
                add("replace", b, NS(cal), True)
        # stage_mem windows over every numeric buffer visible by name
        for wstr, nm in stage_windows(root, site, lst[lo:hi], tier):
            add("stage_mem", b, wstr, nm + "_stg")
            if thorough:
                add("stage_mem", b, wstr, nm + "_acc", True)
        if hi - lo == 1:
            # a new iterator that deliberately takes the name of the innermost enclosing one
            encl = _enclosing_iters(root, site)
            if encl:
                add("add_loop", b, encl[-1], "2")
            for hx in (["2", "n"] if not thorough else ["1", "2", "n", "n - 1"]):
                add("add_loop", b, "r", hx)
                add("add_loop", b, "r", hx, True)
                if include_unsafe:
                    add("add_loop", b, "r", hx, False, unsafe_disable_check=True)

    # ---- loops
    for p, s in fors:
        c = N(p)
        add("unroll_loop", c)
        add("remove_loop", c)
        if include_unsafe:
            add("remove_loop", c, unsafe_disable_check=True)
        add("lift_scope", c)
        add("eliminate_dead_code", c)
        quots = [2, 3] if not thorough else [2, 3, 4]
        for q in quots:
            for tail in ("cut", "guard", "cut_and_guard"):
                add("divide_loop", c, q, ["io", "ii"], tail=tail)
            add("divide_loop", c, q, ["io", "ii"], perfect=True)
        add("divide_loop", c, 2, [str(s.iter), str(s.iter) + "_1"], tail="cut")  # colliding names
        for x in index_exprs(root, p, tier):
            add("cut_loop", c, x)
            add("shift_loop", c, x)
        for x in (["1", "2", "n / 2", "n / 2 + 1", "n"] if thorough else ["2", "n / 2", "n / 2 + 1"]):
            for st in (1, 2):
                add("divide_with_recompute", c, x, st, ["ro", "ri"])
        # nested pair
        if len(s.body) >= 1 and isinstance(s.body[0], LoopIR.For):
            add("reorder_loops", c)
            add("mult_loops", c, "mi")

    # loop-name shorthand strings
    seen_names = set()
    for p, s in fors:
        nm = str(s.iter)
        if nm not in seen_names:
            seen_names.add(nm)
            add("divide_loop", nm, 2, ["so", "si"], tail="cut")
            add("unroll_loop", nm)
    for p, s in fors:
        if len(s.body) == 1 and isinstance(s.body[0], LoopIR.For):
            add("reorder_loops", f"{s.iter} {s.body[0].iter}")

    # ---- ifs
    for p, s in ifs:
        c = N(p)
        add("lift_scope", c)
        add("eliminate_dead_code", c)

    # ---- allocs
    for p, s in allocs:
        c = N(p)
        rank = len(s.type.shape())
        add("sink_alloc", c)
        add("delete_buffer", c)
        add("lift_alloc", c)
        add("lift_alloc", c, 2)
        add("autolift_alloc", c, 1, keep_dims=True)
        if thorough:
            add("autolift_alloc", c, 1, "col", keep_dims=True)
            add("autolift_alloc", c, 2, "row", 4, True)
        for mem in ("DRAM_STACK", "DRAM_STATIC"):
            add("set_memory", c, NS(mem))
        for pr in ("f64", "i32") if thorough else ("f64",):
            add("set_precision", c, pr)
        for x in index_exprs(root, p, tier)[:8]:
            for ix in ["0", "1"] + _all_iters_below(root, p)[-2:]:
                add("expand_dim", c, x, ix)
        for d in range(rank):
            add("unroll_buffer", c, d)
            for q in (2, 4):
                add("divide_dim", c, d, q)
            for sz in (["2", "4", "n"] if not thorough else ["1", "2", "3", "4", "n", "n + 1"]):
                for off in ["0", "1"]:
                    add("resize_dim", c, d, sz, off)
                if sz.isdigit():
                    add("resize_dim", c, d, sz, "0", True)
            for d2 in range(rank):
                if d2 != d:
                    add("mult_dim", c, d, d2)
        if rank >= 2:
            for perm in itertools.permutations(range(rank)):
                if list(perm) != list(range(rank)):
                    add("rearrange_dim", c, list(perm))
        for p2, s2 in allocs:
            if p2 != p:
                add("reuse_buffer", c, N(p2))

    # ---- arguments
    for i, a in args_num:
        c = N([("args", i)])
        for mem in ("DRAM_STATIC",):
            add("set_memory", c, NS(mem))
        add("set_precision", c, "f64")
        if a.type.is_tensor_or_window():
            add("set_window", c, not a.type.is_win())

    # ---- calls, windows, writes
    for p, s in calls:
        add("inline", N(p))
        for e in getattr(seed, "eqv", ()):
            add("call_eqv", N(p), NS(e))
    for p, s in wins:
        add("inline_window", N(p))
    for p, s in assigns:
        add("split_write", N(p))
        add("fold_into_reduce", N(p))
        add("inline_assign", N(p))
    for p, s in reduces:
        add("split_write", N(p))
    for p, s in wcfgs:
        add("delete_config", N(p))

    # ---- expressions
    groups = {}
    for p, e in exprs:
        if isinstance(e, LoopIR.BinOp) and e.type.is_real_scalar():
            add("commute_expr", [N(p)])
            add("left_reassociate_expr", N(p))
        if e.type.is_real_scalar() and isinstance(e, (LoopIR.Read, LoopIR.BinOp)):
            add("bind_expr", [N(p)], "bnd")
            if isinstance(e, LoopIR.BinOp) and args_num:
                # colliding name: the new buffer is called like an argument buffer
                add("bind_expr", [N(p)], str(args_num[0][1].name))
            groups.setdefault(str(e), []).append(p)
            if isinstance(e, LoopIR.Read) and not e.idx:
                for cfgn in seed.configs:
                    add("bind_config", N(p), NS(cfgn), "f")
        if isinstance(e, LoopIR.Read) and isinstance(e.type, T.Bool):
            for cfgn in seed.configs:
                add("bind_config", N(p), NS(cfgn), "t")
        if e.type.is_indexable() and isinstance(e, (LoopIR.BinOp, LoopIR.Read)) and len(p) >= 2 and p[-1][0] in ("idx", "lo", "hi", "lhs", "rhs"):
            s = str(e)
            alts = [f"{s} + 0", f"{s} + 1", f"1 * ({s})"]
            if isinstance(e, LoopIR.BinOp) and e.op in ("+", "*"):
                alts.append(f"{e.rhs} {e.op} {e.lhs}")
            for alt in alts:
                add("rewrite_expr", N(p), alt)
    for txt, ps in groups.items():
        if len(ps) >= 2:
            add("bind_expr", [N(p) for p in ps[:3]], "grp")

    # ---- C19-style utilities (not in the safe alphabet)
    if include_unsafe:
        sizes, idxs = _ctrl_args(root)
        for n in sizes[:1]:
            add("partial_eval", **{n: 2})
            add("add_assertion", f"{n} > 1")
        for i, a in args_num:
            if a.type.is_tensor_or_window() and len(a.type.shape()) == 2:
                add("transpose", N([("args", i)]))

    # ---- standard-library compositions
    add_stdlib(add, root, fors, ifs, allocs, assigns, stmts, seed, tier)
    return ev


def _all_iters_below(root, path):
    return _enclosing_iters(root, list(path) + [("x", 0)])


def stage_windows(root, site, stmts, tier):
    """window strings for stage_mem over buffers accessed in stmts"""
    out = []
    seen = set()

    def visit_e(e):
        if isinstance(e, LoopIR.Read) and e.idx and e.type.is_real_scalar():
            note(e.name, e.idx)
        for _, _, c in irx.expr_children_attr(e):
            visit_e(c)

    def note(name, idx):
        nm = str(name)
        key = (nm, len(idx))
        if key in seen:
            return
        seen.add(key)
        pts = [str(i) for i in idx]
        # point window, and full-extent variants for each dim
        out.append((f"{nm}[{', '.join(pts)}]", nm))
        # halo window around the access (may overhang both ends of the buffer)
        if len(idx) == 1 and not isinstance(idx[0], LoopIR.Const):
            out.append((f"{nm}[{pts[0]} - 1:{pts[0]} + 2]", nm))
        rank = len(idx)
        full = []
        for d in range(rank):
            full.append(f"0:{_extent_str(root, site, name, d)}")
        if all(f is not None and "None" not in f for f in full):
            out.append((f"{nm}[{', '.join(full)}]", nm))
            if rank >= 2:
                out.append((f"{nm}[{pts[0]}, {', '.join(full[1:])}]", nm))
            if tier != "quick":
                out.append((f"{nm}[{', '.join(['0:1'] * rank)}]", nm))

    def visit_s(s):
        if isinstance(s, (LoopIR.Assign, LoopIR.Reduce)):
            if s.idx:
                note(s.name, s.idx)
        for _, _, e in irx.expr_children_attr(s):
            visit_e(e)
        for _, _, c in irx.stmt_children(s):
            visit_s(c)

    for s in stmts:
        visit_s(s)
    return out


def _extent_str(root, site, name, d):
    # find the declaration of `name`
    for a in root.args:
        if a.name is name or a.name == name:
            shp = a.type.shape()
            return str(shp[d]) if d < len(shp) else None
    for p, s in irx.all_stmts(root):
        if isinstance(s, LoopIR.Alloc) and s.name == name:
            shp = s.type.shape()
            return str(shp[d]) if d < len(shp) else None
        if isinstance(s, LoopIR.WindowStmt) and s.name == name:
            shp = s.rhs.type.as_tensor.shape()
            return str(shp[d]) if d < len(shp) else None
    return None


def add_stdlib(add, root, fors, ifs, allocs, assigns, stmts, seed, tier):
    for p, s in fors:
        c = N(p)
        add("std.bound_loop_by_if", c)
        add("std.round_loop", c, 2)
        add("std.cut_loop_and_unroll", c, 1)
        add("std.unroll_and_jam", c, 2)
        add("std.fission_into_singles", c)
        add("std.hoist_from_loop", c)
        add("std.divide_loop_recursive", c, 2)
        add("std.undo_divide_and_guard_loop", c)
        add("std.tile_loops", [[c, 2]])
        for b in _bufs(root)[:2]:
            add("std.auto_stage_mem", c, b, "stg_auto")
    for p, s in ifs:
        add("std.lift_if", N(p))
    for p, s in stmts:
        if isinstance(s, (LoopIR.Assign, LoopIR.Reduce)):
            add("std.hoist_stmt", N(p))
            add("std.reorder_stmt_forward", N(p))
            add("std.reorder_stmt_backwards", N(p))
            add("std.dealias", N(p))
        if isinstance(s, LoopIR.Reduce):
            add("std.unfold_reduce", N(p))
    add("std.unroll_loops")
    add("std.unroll_buffers")
    if seed.callees:
        add("std.replace_all", [NS(c) for c in seed.callees if c != "nop"])
        add("std.replace_all_stmts", [NS(c) for c in seed.callees if c != "nop"])


def _bufs(root):
    return [str(a.name) for a in root.args if a.type.is_numeric() and a.type.is_tensor_or_window()]


def _first_buf(root):
    for a in root.args:
        if a.type.is_numeric() and a.type.is_tensor_or_window():
            return str(a.name)
    return "x"
