"""Bounded-exhaustive quasi-affine index expressions.

AST: ('v', name) | ('c', k) | ('neg', a) | ('+', a, b) | ('-', a, b) |
     ('*', a, b) with one side a constant | ('/', a, k) | ('%', a, k)"""
import itertools


def gen_exprs(vars_, consts, divisors, max_nodes, mul_consts=(2, 3, -1)):
    """all expressions with at most max_nodes nodes; deterministic order"""
    by_size = {1: [("v", v) for v in vars_] + [("c", k) for k in consts]}
    for n in range(2, max_nodes + 1):
        out = []
        # unary minus
        for a in by_size.get(n - 1, []):
            if a[0] != "neg" and a[0] != "c":
                out.append(("neg", a))
        # / and % by a literal (literal counted as one node)
        if n >= 3:
            for a in by_size.get(n - 2, []):
                if a[0] == "c":
                    continue
                for k in divisors:
                    out.append(("/", a, k))
                    out.append(("%", a, k))
                for k in mul_consts:
                    out.append(("*", ("c", k), a))
        # binary + -
        for ls in range(1, n - 1):
            rs = n - 1 - ls
            for a in by_size.get(ls, []):
                for b in by_size.get(rs, []):
                    if a[0] == "c" and b[0] == "c":
                        continue
                    out.append(("+", a, b))
                    out.append(("-", a, b))
        by_size[n] = out
    res = []
    for n in range(1, max_nodes + 1):
        res += by_size[n]
    return res


def to_src(e):
    t = e[0]
    if t == "v":
        return e[1]
    if t == "c":
        return str(e[1]) if e[1] >= 0 else f"({e[1]})"
    if t == "neg":
        return f"(-{to_src(e[1])})"
    if t in ("+", "-"):
        return f"({to_src(e[1])} {t} {to_src(e[2])})"
    if t == "*":
        return f"({to_src(e[1])} * {to_src(e[2])})"
    if t in ("/", "%"):
        return f"({to_src(e[1])} {t} {e[2]})"
    raise ValueError(e)


def evaluate(e, env):
    t = e[0]
    if t == "v":
        return env[e[1]]
    if t == "c":
        return e[1]
    if t == "neg":
        return -evaluate(e[1], env)
    if t == "+":
        return evaluate(e[1], env) + evaluate(e[2], env)
    if t == "-":
        return evaluate(e[1], env) - evaluate(e[2], env)
    if t == "*":
        return evaluate(e[1], env) * evaluate(e[2], env)
    if t == "/":
        return evaluate(e[1], env) // e[2]
    if t == "%":
        return evaluate(e[1], env) % e[2]
    raise ValueError(e)


def vars_of(e):
    t = e[0]
    if t == "v":
        return {e[1]}
    if t == "c":
        return set()
    s = set()
    for x in e[1:]:
        if isinstance(x, tuple):
            s |= vars_of(x)
    return s


def has_divmod(e):
    if e[0] in ("/", "%"):
        return True
    return any(isinstance(x, tuple) and has_divmod(x) for x in e[1:])


def to_loopir(e, syms):
    """build a LoopIR index expression; syms: name -> Sym"""
    from exo.core.LoopIR import LoopIR, T
    from exo.core.prelude import SrcInfo

    si = SrcInfo("<vf>", 0)

    def rec(e):
        t = e[0]
        if t == "v":
            return LoopIR.Read(syms[e[1]], [], T.index, si)
        if t == "c":
            return LoopIR.Const(e[1], T.int, si)
        if t == "neg":
            return LoopIR.USub(rec(e[1]), T.index, si)
        if t in ("+", "-", "*"):
            return LoopIR.BinOp(t, rec(e[1]), rec(e[2]), T.index, si)
        if t in ("/", "%"):
            return LoopIR.BinOp(t, rec(e[1]), LoopIR.Const(e[2], T.int, si), T.index, si)
        raise ValueError(e)

    return rec(e)


def eval_loopir(x, env):
    """evaluate a LoopIR index expression under env: Sym -> int (floor semantics)"""
    from exo.core.LoopIR import LoopIR

    if isinstance(x, LoopIR.Read):
        return env[x.name]
    if isinstance(x, LoopIR.Const):
        return x.val
    if isinstance(x, LoopIR.USub):
        return -eval_loopir(x.arg, env)
    if isinstance(x, LoopIR.BinOp):
        a, b = eval_loopir(x.lhs, env), eval_loopir(x.rhs, env)
        return {"+": a + b, "-": a - b, "*": a * b}.get(x.op) if x.op in "+-*" else (a // b if x.op == "/" else a % b)
    raise ValueError(type(x))
