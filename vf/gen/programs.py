"""Bounded-exhaustive families of Exo source programs for the front-end and
back-end properties.  Every family is the full product of its small axes."""
import itertools


class Prog:
    def __init__(self, name, src, entry, family, tags=()):
        self.name = name
        self.src = src
        self.entry = entry
        self.family = family
        self.tags = tuple(tags)

    def build(self):
        from vf.exoutil import mkprocs

        ns = mkprocs(self.src, tag=self.name)
        return ns[self.entry], ns


def f1_direct(tier):
    """direct 1-D accesses: lo x hi x idx x op x guard"""
    los = ["0", "1"]
    his = ["n", "n - 1", "n / 2", "2"]
    idxs = ["i", "i + 1", "n - 1 - i", "2 * i", "i / 2", "i % 2", "(i + 1) % 3"]
    ops = ["write", "reduce", "read"]
    guards = ["", "i + 1 < n", "i > 0"]
    if tier == "quick":
        his = ["n", "n - 1", "n / 2"]
        guards = ["", "i + 1 < n"]
    out = []
    k = 0
    for lo, hi, ix, op, g in itertools.product(los, his, idxs, ops, guards):
        body = {"write": f"x[{ix}] = y[i] + 1.0", "reduce": f"x[{ix}] += y[i]", "read": f"y[i] = x[{ix}] * 2.0"}[op]
        if g:
            body = f"if {g}:\n            {body}"
        src = f"""
@proc
def f1_{k}(n: size, x: f32[2 * n + 2], y: f32[n + 2]):
    for i in seq({lo}, {hi}):
        {body}
"""
        out.append(Prog(f"f1_{k}", src, f"f1_{k}", "F1", (lo, hi, ix, op, g)))
        k += 1
    return out


def f3_windows(tier):
    """window statements / window arguments with strides"""
    out = []
    k = 0
    wins = [("x[0:n, 1]", 1, "n"), ("x[1, 0:4]", 1, "4"), ("x[0:n, 0:4]", 2, None), ("x[1:n, 1:3]", 2, None), ("x[n - 1, 1:4]", 1, "3")]
    for (w, rank, ext), op in itertools.product(wins, ["write", "reduce", "read"]):
        if rank == 1:
            acc = "w[j]"
            loop = f"for j in seq(0, {ext}):"
        else:
            acc = "w[0, j]"
            loop = "for j in seq(0, 2):"
        body = {"write": f"{acc} = 1.0 + y[j]", "reduce": f"{acc} += y[j]", "read": f"y[j] = {acc}"}[op]
        for argkind in ("tensor", "window"):
            xdecl = "x: f32[n + 1, 4]" if argkind == "tensor" else "x: [f32][n + 1, 4]"
            src = f"""
@proc
def f3_{k}(n: size, {xdecl}, y: f32[n + 4]):
    assert n >= 2
    w = {w}
    {loop}
        {body}
"""
            out.append(Prog(f"f3_{k}", src, f"f3_{k}", "F3", (w, op, argkind)))
            k += 1
    # rank-3 buffers: direct accesses, windows with points in every position, window arguments
    for w, rank in [("x[1, 0:n, 2]", 1), ("x[0:2, 1, 0:3]", 2), ("x[1, 1, 0:3]", 1), ("x[0:2, 0:n, 1]", 2), ("x[1, 0:n, 0:3]", 2)]:
        for argkind in ("tensor", "window"):
            xdecl = "x: f32[2, n + 1, 3]" if argkind == "tensor" else "x: [f32][2, n + 1, 3]"
            acc = "w[j]" if rank == 1 else "w[j, 1]"
            src = f"""
@proc
def f3r_{k}(n: size, {xdecl}, y: f32[4]):
    assert n >= 2
    w = {w}
    for j in seq(0, 2):
        {acc} = y[j] + 3.0
    for i in seq(0, n):
        x[1, i, 2] += y[0]
"""
            out.append(Prog(f"f3r_{k}", src, f"f3r_{k}", "F3", (w, argkind)))
            k += 1
    # window of window
    for outer, inner in [("x[1:5, 2:5]", "w[1, 0:2]"), ("x[1:5, 2:5]", "w[0:2, 1]"), ("x[1:5, 2:5]", "w[1:3, 0:2]"),
                         ("x3[1, 1:5, 2:5]", "w[1, 0:2]"), ("x3[0:2, 2, 1:4]", "w[1, 0:2]"), ("x3[0:2, 1:5, 3]", "w[0:2, 1]")]:
        r = 1 if inner.count(":") == 1 else 2
        acc = "v[j]" if r == 1 else "v[j, 1]"
        src = f"""
@proc
def f3w_{k}(x: [f32][6, 5], x3: [f32][2, 6, 5], y: f32[4]):
    w = {outer}
    v = {inner}
    for j in seq(0, 2):
        {acc} = y[j] + 2.0
"""
        out.append(Prog(f"f3w_{k}", src, f"f3w_{k}", "F4", (inner,)))
        k += 1
    return out


def f5_calls(tier):
    out = []
    k = 0
    args = [("x[i, 0:4]", "row"), ("x[0:4, i]", "col"), ("x[i, 1:5]", "shifted")]
    for (a, kind), cbody, param in itertools.product(args, ["d[k] = s[k] * 2.0", "d[k] += s[k]"], ["[f32][4]", "f32[4]"]):
        if param == "f32[4]" and kind != "row":
            continue  # dense parameter needs a dense argument
        src = f"""
@proc
def cal_{k}(d: {param}, s: [f32][4], a: f32):
    for k in seq(0, 4):
        {cbody}
    a = d[0]

@proc
def f5_{k}(x: f32[5, 5], z: f32[4], acc: f32):
    for i in seq(0, 4):
        cal_{k}({a}, z, acc)
"""
        out.append(Prog(f"f5_{k}", src, f"f5_{k}", "F5", (kind, cbody, param)))
        k += 1
    # scalars by reference, sizes/index/bool parameters
    src = f"""
@proc
def sc_{k}(m: size, j: index, b: bool, v: f32, o: [f32][m]):
    assert j >= 0
    assert j < m
    if b:
        o[j] = v
    v = v + 1.0

@proc
def f5_{k}(n: size, x: f32[n], t: f32, b: bool):
    for i in seq(0, n):
        sc_{k}(n, i, b, t, x)
"""
    out.append(Prog(f"f5_{k}", src, f"f5_{k}", "F5", ("scalar-ref",)))
    return out


def f9_divmod(tier):
    out = []
    k = 0
    nums = ["i", "i - 1", "i + k", "n - 1 - i", "2 * i - 3", "0 - i"]
    for num, op, d, pos in itertools.product(nums, ["/", "%"], [2, 3] if tier == "quick" else [2, 3, 4], ["index", "cond", "bound"]):
        e = f"({num}) {op} {d}"
        if pos == "index":
            body = f"x[{e} + 8] += y[i]"
        elif pos == "cond":
            body = f"if {e} == 1:\n            x[i] += y[i]"
        else:
            body = f"for q in seq(0, {e} + 6):\n            x[q] += y[i]"
        src = f"""
@proc
def f9_{k}(n: size, k: index, x: f32[24], y: f32[8]):
    assert n <= 6
    assert k >= -2
    assert k <= 2
    for i in seq(0, n):
        {body}
"""
        out.append(Prog(f"f9_{k}", src, f"f9_{k}", "F9", (num, op, d, pos)))
        k += 1
    return out


def f10_alloc(tier):
    out = []
    k = 0
    mems = ["DRAM", "DRAM_STACK", "DRAM_STATIC"]
    exts = [("f32", "t", "t"), ("f32[4]", "t[j]", "t[3 - j]"), ("f32[n]", "t[i]", "t[i]")]
    poss = ["top", "loop", "then", "else"]

    def ind(lines, n):
        return ["    " * n + l for l in lines]

    for mem, (ty, wr, rd), pos in itertools.product(mems, exts, poss):
        if mem in ("DRAM_STATIC", "DRAM_STACK") and ty == "f32[n]":
            continue
        decl = [f"t: {ty} @ {mem}"]
        use = ["for j in seq(0, 4):", f"    {wr} = x[i] + 1.0", "for j in seq(0, 4):", f"    y[i] += {rd}"]
        head = ["@proc", f"def f10_{k}(n: size, x: f32[n], y: f32[n]):"]
        if pos == "top":
            body = ind(decl, 1) + ["    for i in seq(0, n):"] + ind(use, 2)
        elif pos == "loop":
            body = ["    for i in seq(0, n):"] + ind(decl + use, 2)
        elif pos == "then":
            body = ["    for i in seq(0, n):", "        if i < 1:"] + ind(decl + use, 3) + ["        else:", "            y[i] = 0.0"]
        else:
            body = ["    for i in seq(0, n):", "        if i < 1:", "            y[i] = 0.0", "        else:"] + ind(decl + use, 3)
        src = "\n".join(head + body) + "\n"
        out.append(Prog(f"f10_{k}", src, f"f10_{k}", "F10", (mem, ty, pos)))
        k += 1
    # window of a local allocation used after the last syntactic use of the base
    for mem in ["DRAM"]:
        src = f"""
@proc
def f10w_{k}(n: size, y: f32[n]):
    t: f32[n, 2] @ {mem}
    for i in seq(0, n):
        t[i, 0] = 1.0
        t[i, 1] = 2.0
    w = t[0:n, 1]
    for i in seq(0, n):
        y[i] = w[i]
"""
        out.append(Prog(f"f10w_{k}", src, f"f10w_{k}", "F10", (mem, "window-after-base")))
        k += 1
    # chains of windows over a local allocation: the last use goes through the 1st / 2nd / 3rd window,
    # by a read, a write, a reduction or a call argument, with or without an intervening use of the base
    fill = """
@proc
def f10_fill(d: [f32][2], v: f32):
    for j in seq(0, 2):
        d[j] = v
"""
    for depth, last, touch in itertools.product([1, 2, 3], ["read", "write-read", "call", "reduce"], ["none", "base", "w1"]):
        chain = ["w1 = t[1:7]"]
        if depth >= 2:
            chain.append("w2 = w1[1:5]")
        if depth >= 3:
            chain.append("w3 = w2[1:3]")
        inner = f"w{depth}"
        mid = {"none": [], "base": ["y[0] = t[0]"], "w1": ["y[0] = w1[0]"]}[touch]
        if last == "read":
            use = ["for i in seq(0, 2):", f"    y[i + 1] = {inner}[i]"]
        elif last == "write-read":
            use = ["for i in seq(0, 2):", f"    {inner}[i] = 5.0", f"    y[i + 1] = {inner}[i]"]
        elif last == "call":
            use = [f"f10_fill({inner}[0:2], 3.0)", "for i in seq(0, 2):", f"    y[i + 1] = {inner}[i]"]
        else:
            use = ["for i in seq(0, 2):", f"    {inner}[i] += 1.0", f"    y[i + 1] = {inner}[i]"]
        lines = ["@proc", f"def f10c_{k}(n: size, y: f32[n + 3]):", "    t: f32[8] @ DRAM", "    for i in seq(0, 8):", "        t[i] = 1.0"]
        lines += ["    " + l for l in chain + mid + use]
        # a second allocation afterwards makes a premature free observable even without a sanitizer
        lines += ["    u: f32[8] @ DRAM", "    for i in seq(0, 8):", "        u[i] = 9.0", "    y[0] = u[0]"]
        src = fill + "\n".join(lines) + "\n"
        out.append(Prog(f"f10c_{k}", src, f"f10c_{k}", "F10", ("chain", depth, last, touch)))
        k += 1
    return out


def f11_names(tier):
    out = []
    srcs = ["""
@proc
def f11_0(x: f32[4], x_1: f32[4], ctxt: f32[4]):
    for i in seq(0, 2):
        for i in seq(0, 2):
            x[i] = x_1[i] + ctxt[i]
    for i_1 in seq(0, 2):
        x[i_1 + 2] = 1.0
""", """
@proc
def f11_1(n: size, x: f32[n], y: f32[n + 2]):
    for i in seq(0, n):
        t: f32
        t = x[i]
        for i in seq(0, 2):
            t: f32
            t = 2.0
            y[i] = t
        x[i] = t
""", """
@proc
def f11_2(N: size, n: size, x: f32[N, n], i: index):
    assert i >= 0
    assert i < n
    for j in seq(0, N):
        x[j, i] = 1.0
"""]
    srcs += ["""
@proc
def f11_3(out: f32[3, 2, 3]):
    for i_1 in seq(0, 3):
        for i in seq(0, 2):
            for i in seq(0, 3):
                out[i_1, 0, i] += 1.0
""", """
@proc
def f11_4(y: f32[4], x_1: f32, x: f32):
    x_1 = 3.0
    x = 1.0
    for j in seq(0, 2):
        x: f32
        x = 5.0
        y[j] = x_1 + x
    y[3] = x
""", """
@proc
def f11_5(y: f32[8]):
    for i in seq(0, 2):
        for i_1 in seq(0, 2):
            for i in seq(0, 2):
                for i in seq(0, 1):
                    y[4 * i_1 + i] += 1.0
"""]
    for k, s in enumerate(srcs):
        out.append(Prog(f"f11_{k}", s, f"f11_{k}", "F11", ()))
    return out


def f14_config(tier):
    cfg = """
@config
class CF:
    i: index
    s: size
    b: bool
    f: f32
"""
    srcs = ["""
@proc
def f14_0(n: size, x: f32[n + 4], v: f32, b: bool):
    CF.i = 2
    CF.b = b
    CF.f = v
    for j in seq(0, n):
        if CF.b:
            x[j + CF.i] = CF.f
""", """
@proc
def setter(k: index):
    CF.i = k

@proc
def f14_1(n: size, x: f32[n + 4]):
    setter(1)
    for j in seq(0, n):
        x[j + CF.i] = 1.0
    setter(3)
"""]
    out = []
    for k, s in enumerate(srcs):
        out.append(Prog(f"f14_{k}", cfg + s, f"f14_{k}", "F14", ()))
    return out


def f12_precision(tier):
    out = []
    k = 0
    precs = ["f32", "f64", "i8", "i32"]
    for a, b in itertools.product(precs, precs):
        src = f"""
@proc
def f12_{k}(n: size, x: {a}[n], y: {b}[n]):
    for i in seq(0, n):
        y[i] = x[i]
    for i in seq(0, n):
        y[i] += x[i]
"""
        out.append(Prog(f"f12_{k}", src, f"f12_{k}", "F12", (a, b)))
        k += 1
    return out


def backend_programs(tier):
    ps = []
    f1 = f1_direct(tier)
    ps += f1 if tier != "quick" else f1[::3]
    ps += f3_windows(tier)
    ps += f5_calls(tier)
    ps += f9_divmod(tier)
    ps += f10_alloc(tier)
    ps += f11_names(tier)
    ps += f12_precision(tier)
    ps += f14_config(tier)
    return ps


# ---------------------------------------------------------------------------
# front-end families (C03): programs that may or may not be safe; the front
# end must reject every unsafe one


def fe_access(tier):
    """accesses directly / through window / through window of window / through callee"""
    out = []
    k = 0
    idxs = ["i", "i + 1", "i - 1", "n - 1 - i", "n - i", "2 * i", "i / 2", "(i - 1) % 2", "i + k"]
    bounds = [("0", "n"), ("1", "n"), ("0", "n - 1"), ("0", "n + 1")]
    guards = ["", "i + 1 < n", "i > 0", "i <= n", "ELSE:i + 1 >= n", "ELSE:i < 1", "ELSE:i + 1 < n", "ELSE:i > n - 1", "ELSE:i > n - 2", "ELSE:i >= n - 1"]
    vias = ["direct", "window", "wow", "callee_win", "callee_tensor"]
    ops = ["write", "read", "reduce"]
    if tier == "quick":
        idxs = ["i", "i + 1", "i - 1", "n - i", "2 * i", "(i - 1) % 2", "i + k"]
        guards = ["", "i + 1 < n", "i > 0", "ELSE:i + 1 >= n", "ELSE:i < 1", "ELSE:i > n - 1", "ELSE:i > n - 2"]
        ops = ["write", "read"]
    for ix, (lo, hi), g, via, op in itertools.product(idxs, bounds, guards, vias, ops):
        if via in ("callee_win", "callee_tensor") and (g or op == "reduce"):
            continue
        acc_t = {"write": "{B}[{I}] = 1.0", "read": "y[0] = {B}[{I}]", "reduce": "{B}[{I}] += 1.0"}[op]
        pre = []
        callee = ""
        if via == "direct":
            stmt = acc_t.format(B="x", I=ix)
        elif via == "window":
            pre = ["w = x[0:n]"]
            stmt = acc_t.format(B="w", I=ix)
        elif via == "wow":
            pre = ["w = x[0:n]", "v = w[0:n]"]
            stmt = acc_t.format(B="v", I=ix)
        else:
            ptype = "[f32][m]" if via == "callee_win" else "f32[m]"
            cbody = {"write": "d[j] = 1.0", "read": "o[0] = d[j]"}[op]
            callee = f"""
@proc
def fe_cal_{k}(m: size, j: index, d: {ptype}, o: f32[1]):
    assert j >= 0
    assert j < m
    {cbody}
"""
            stmt = f"fe_cal_{k}(n, {ix}, x, y)"
        body = stmt
        if g.startswith("ELSE:"):
            body = f"if {g[5:]}:\n            pass\n        else:\n            {stmt}"
        elif g:
            body = f"if {g}:\n            {stmt}"
        prel = "".join(f"    {p}\n" for p in pre)
        src = callee + f"""
@proc
def fe_{k}(n: size, k: index, x: f32[n], y: f32[1]):
    assert k >= 0
    assert k <= 1
{prel}    for i in seq({lo}, {hi}):
        {body}
"""
        out.append(Prog(f"fe_{k}", src, f"fe_{k}", "FE1", (ix, lo, hi, g, via, op)))
        k += 1
    return out


def fe_windows(tier):
    """window extents and points vs. the underlying buffer"""
    out = []
    k = 0
    wins = ["x[0:n]", "x[1:n]", "x[0:n + 1]", "x[1:n + 1]", "x[0:n - 1]", "x[n - 1:n]", "x[n:n]", "x[2:1]"]
    accs = ["0", "n - 1", "n - 2", "n"]
    for w, a, op in itertools.product(wins, accs, ["write", "read"]):
        stmt = f"w[{a}] = 1.0" if op == "write" else f"y[0] = w[{a}]"
        src = f"""
@proc
def few_{k}(n: size, x: f32[n], y: f32[1]):
    assert n >= 2
    w = {w}
    {stmt}
"""
        out.append(Prog(f"few_{k}", src, f"few_{k}", "FE2", (w, a, op)))
        k += 1
    # 2-D windows with points
    for w, a in itertools.product(["x[1, 0:n]", "x[n, 0:n]", "x[0:2, n - 1]", "x[0:3, 0]", "x[2, 0:n]"], ["0", "1", "n - 1", "n"]):
        src = f"""
@proc
def few_{k}(n: size, x: f32[2, n], y: f32[1]):
    w = {w}
    w[{a}] = 1.0
"""
        out.append(Prog(f"few_{k}", src, f"few_{k}", "FE2", (w, a)))
        k += 1
    return out


def fe_calls(tier):
    """callee assertions, size arguments, shapes, aliasing"""
    out = []
    k = 0
    sizes = ["n", "n - 1", "n / 2", "n + 1", "2 * n", "n % 2 + 1", "n % 2"]
    asserts = ["", "m <= 4", "m % 2 == 0", "m >= 2"]
    for sz, asr in itertools.product(sizes, asserts):
        a = f"    assert {asr}\n" if asr else ""
        src = f"""
@proc
def fc_cal_{k}(m: size, d: [f32][m]):
{a}    for j in seq(0, m):
        d[j] = 1.0

@proc
def fc_{k}(n: size, x: f32[2 * n + 2]):
    fc_cal_{k}({sz}, x[0:{sz}])
"""
        out.append(Prog(f"fc_{k}", src, f"fc_{k}", "FE3", (sz, asr)))
        k += 1
    # shape mismatch / stride assertion / aliasing
    extra = [
        ("shape", "fcs(n, x[0:n - 1])", "m: size, d: [f32][m]", ""),
        ("shape2", "fcs(n, x[0:n + 1])", "m: size, d: [f32][m]", ""),
        ("stride-ok", "fcs(n, z[0, 0:n])", "m: size, d: [f32][m]", "assert stride(d, 0) == 1"),
        ("stride-bad", "fcs(2, z[0:2, 0])", "m: size, d: [f32][m]", "assert stride(d, 0) == 1"),
    ]
    for tag, call, sig, asr in extra:
        a = f"    {asr}\n" if asr else ""
        src = f"""
@proc
def fcs({sig}):
{a}    for j in seq(0, m):
        d[j] = 1.0

@proc
def fc_{k}(n: size, x: f32[n + 1], z: f32[2, n]):
    {call}
"""
        out.append(Prog(f"fc_{k}", src, f"fc_{k}", "FE3", (tag,)))
        k += 1
    alias = ["f2(x, x)", "f2(x[0:2], x[2:4])", "f2(x[0:3], x[2:4])", "f2(x[0:2], x[1:3])", "f2(w, x[0:2])", "f2(w, x[2:4])", "f2(x[0:2], y[0:2])",
             "f2(v, x[1:3])", "f2(v, x[2:4])", "f2(v, w)", "f2(v, w3[0:2])", "f2(v, y[0:2])"]
    for call in alias:
        src = f"""
@proc
def f2(a: [f32][2], b: [f32][2]):
    a[0] = b[1]

@proc
def fc_{k}(x: f32[4], y: f32[4]):
    w = x[0:2]
    w3 = x[0:4]
    v = w3[0:2]
    {call}
"""
        if call == "f2(x, x)":
            src = src.replace("[f32][2]", "[f32][4]")
        out.append(Prog(f"fc_{k}", src, f"fc_{k}", "FE4", (call,)))
        k += 1
    return out


def fe_loops(tier):
    out = []
    k = 0
    for lo, hi in [("n", "2"), ("2", "n"), ("0", "n - 2"), ("n", "n"), ("k", "n"), ("0", "k"), ("n / 2", "n"), ("n", "n / 2"), ("1", "n % 2")]:
        src = f"""
@proc
def fl_{k}(n: size, k: index, x: f32[n + 4]):
    assert k >= -1
    assert k <= 1
    for i in seq({lo}, {hi}):
        x[0] = 1.0
"""
        out.append(Prog(f"fl_{k}", src, f"fl_{k}", "FE5", (lo, hi)))
        k += 1
    return out


def fe_window_chains(tier):
    """windows of windows: every combination of first-level offset (literal 0 included), second-level
    offset/extent and final access, reached through window statements and through call arguments"""
    out = []
    k = 0
    offs2 = [0, 1, 2, 3] if tier == "quick" else [0, 1, 2, 3, 4]
    for a0, L1, b0, L2, how in itertools.product([0, 1, 2], [4, 6], offs2, [2, 4], ["stmt", "callarg", "stmt-read"]):
        if how == "stmt":
            body = f"v = w[{b0}:{b0 + L2}]\n    v[{L2 - 1}] = 1.0\n    v[0] = 2.0"
        elif how == "stmt-read":
            body = f"v = w[{b0}:{b0 + L2}]\n    y[0] = v[{L2 - 1}]"
        else:
            body = f"fwc_fill{L2}(w[{b0}:{b0 + L2}])"
        src = f"""
@proc
def fwc_fill2(d: [f32][2]):
    for j in seq(0, 2):
        d[j] = 1.0

@proc
def fwc_fill4(d: [f32][4]):
    for j in seq(0, 4):
        d[j] = 1.0

@proc
def fwc_{k}(x: f32[8], y: f32[1]):
    w = x[{a0}:{a0 + L1}]
    {body}
"""
        out.append(Prog(f"fwc_{k}", src, f"fwc_{k}", "FE6", (a0, L1, b0, L2, how)))
        k += 1
    # 2-D: a row/column block named by a window statement, rows of it passed on (point + interval)
    for r0, c0, b0, how in itertools.product([0, 4], [0, 1, 2], [0, 1, 2, 3, 4, 5], ["callarg", "stmt"]):
        if how == "callarg":
            body = f"for i in seq(0, 4):\n        fwc_fill4(half[i, {b0}:{b0 + 4}])"
        else:
            body = f"for i in seq(0, 4):\n        r = half[i, {b0}:{b0 + 4}]\n        r[3] = 1.0"
        src = f"""
@proc
def fwc_fill4(d: [f32][4]):
    for j in seq(0, 4):
        d[j] = 1.0

@proc
def fwc_{k}(A: f32[8, 8], y: f32[1]):
    half = A[{r0}:{r0 + 4}, {c0}:{c0 + 6}]
    {body}
"""
        out.append(Prog(f"fwc_{k}", src, f"fwc_{k}", "FE6", (r0, c0, b0, how)))
        k += 1
    # symbolic: offsets built from a size argument
    for a, b, acc in itertools.product(["0", "1", "n"], ["0", "1", "n"], ["0", "n - 1", "n"]):
        src = f"""
@proc
def fwc_{k}(n: size, x: f32[2 * n + 1], y: f32[1]):
    w = x[{a}:{a} + n + 1]
    v = w[{b}:{b} + n]
    v[{acc}] = 1.0
"""
        out.append(Prog(f"fwc_{k}", src, f"fwc_{k}", "FE6", (a, b, acc)))
        k += 1
    return out


def frontend_programs(tier):
    ps = fe_access(tier) + fe_windows(tier) + fe_calls(tier) + fe_loops(tier) + fe_window_chains(tier)
    return ps
