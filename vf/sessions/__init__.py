"""Scripted sessions for C18: each returns a list of (label, text) outputs."""
import textwrap

from vf.exoutil import mkprocs

SESSIONS = {}


def session(f):
    SESSIONS[f.__name__] = f
    return f


def outputs_of(procs, hname="out.h"):
    from exo.API import compile_procs_to_strings

    out = []
    for p in procs:
        out.append((f"str:{p.name()}", str(p)))
    c, h = compile_procs_to_strings(list(procs), hname)
    out.append(("c", c))
    out.append(("h", h))
    return out


COMMON = """
@config
class CfgA:
    a: index
    f: f32

@config
class CfgB:
    b: bool
    s: stride

@proc
def copy4(d: [f32][4], s: [f32][4]):
    for k in seq(0, 4):
        d[k] = s[k]

@proc
def scale(m: size, d: [f32][m], a: f32):
    for k in seq(0, m):
        d[k] = a * d[k]

@proc
def copy4d(d: [f64][4], s: [f64][4]):
    for k in seq(0, 4):
        d[k] = s[k]
"""


@session
def s_multi_window_structs():
    ns = mkprocs(COMMON + """
@proc
def k1(n: size, x: f32[n, 4], y: f32[4, n], z: f64[4, 4], z2: f64[4, 4], i8b: i8[4, 4], w: [f32][n]):
    for i in seq(0, n):
        copy4(x[i, :], y[:, i])
    copy4d(z[0, :], z2[:, 1])
    sc: f32
    sc = x[0, 0]
    scale(n, w, sc)
    v = i8b[1, :]
    v[0] = 1.0
""", tag="s1")
    return outputs_of([ns["k1"]])


@session
def s_configs_externs_mems():
    ns = mkprocs(COMMON + """
@proc
def k2(n: size, x: f32[n] @ DRAM, y: f64[n] @ DRAM, b: bool):
    assert stride(x, 0) == 1
    CfgA.a = 1
    CfgB.b = b
    CfgB.s = stride(x, 0)
    t: f32[4] @ DRAM_STATIC
    u: f32[4] @ DRAM_STACK
    for i in seq(0, n):
        x[i] = relu(x[i]) + sin(x[i]) + select(x[i], 0.0, x[i], 1.0)
        y[i] = sqrt(y[i]) + sin(y[i]) + relu(y[i]) + select(y[i], 0.0, y[i], 1.0) + sigmoid(y[i])
        x[i] += sigmoid(x[i]) + sqrt(x[i])
    for j in seq(0, 4):
        t[j] = 0.0
        u[j] = t[j]
""", tag="s2")
    return outputs_of([ns["k2"]])


@session
def s_schedule_tile_stage():
    ns = mkprocs("""
@proc
def gemm(M: size, N: size, K: size, A: f32[M, K], B: f32[K, N], C: f32[M, N]):
    assert M % 4 == 0
    assert N % 4 == 0
    for i in seq(0, M):
        for j in seq(0, N):
            for k in seq(0, K):
                C[i, j] += A[i, k] * B[k, j]
""", tag="s3")
    from exo.stdlib.scheduling import divide_loop, reorder_loops, stage_mem, simplify, lift_alloc, fission, unroll_loop, bind_expr, expand_dim
    p = ns["gemm"]
    p = divide_loop(p, "i", 4, ["io", "ii"], perfect=True)
    p = divide_loop(p, "j", 4, ["jo", "ji"], perfect=True)
    p = reorder_loops(p, "ii jo")
    p = stage_mem(p, "for ii in _:_", "C[4 * io:4 * io + 4, 4 * jo:4 * jo + 4]", "Creg")
    p = simplify(p)
    p = bind_expr(p, "A[_]", "a_v")
    p = expand_dim(p, "a_v", 4, "ji")
    p = lift_alloc(p, "a_v", 1)
    p = unroll_loop(p, "ji")
    from exo.stdlib.scheduling import rename
    return outputs_of([rename(p, "gemm_sched"), ns["gemm"]])


@session
def s_unroll_buffer_replace():
    ns = mkprocs(COMMON + """
@proc
def k4(n: size, x: f32[n, 4], y: f32[n, 4]):
    for i in seq(0, n):
        t: f32[2, 4]
        for j in seq(0, 4):
            t[0, j] = x[i, j]
        for j in seq(0, 4):
            t[1, j] = t[0, j]
        for j in seq(0, 4):
            y[i, j] = t[1, j]
""", tag="s4")
    from exo.stdlib.scheduling import unroll_buffer, replace_all, extract_subproc, rename
    p = ns["k4"]
    p = unroll_buffer(p, "t", 0)
    p = replace_all(p, [ns["copy4"]])
    p, sub = extract_subproc(p, p.find_loop("i").body(), "body_fn")
    return outputs_of([p, sub])


@session
def s_many_free_vars():
    ns = mkprocs("""
@proc
def k5(n: size, m: size, a: f32[n], b: f32[m], c: f32[n, m], d: f32[n], e: f32[m], s: f32, t: f32):
    for i in seq(0, n):
        for j in seq(0, m):
            u: f32
            v: f32
            u = a[i] * b[j] + s
            v = d[i] + e[j] * t
            c[i, j] = u * v
""", tag="s5")
    from exo.stdlib.scheduling import extract_subproc, fission, lift_alloc, autolift_alloc, simplify
    p = ns["k5"]
    p = autolift_alloc(p, "u: _", 2, keep_dims=True)
    p = autolift_alloc(p, "v: _", 2, keep_dims=True)
    p = fission(p, p.find("v[_] = _").after(), 2)
    p, sub = extract_subproc(p, p.find_loop("i #1"), "tail")
    p, sub2 = extract_subproc(p, p.find_loop("i #0"), "head")
    return outputs_of([p, sub, sub2])


@session
def s_x86_instrs():
    ns = mkprocs("""
from exo.platforms.x86 import *

@proc
def k6(x: f32[16], y: f32[16], z: f64[8]):
    a: f32[8] @ AVX2
    b: f32[8] @ AVX2
    acc: f32[8] @ AVX2
    c: f64[4] @ AVX2
    for o in seq(0, 2):
        mm256_loadu_ps(a, x[8 * o:8 * o + 8])
        mm256_loadu_ps(b, y[8 * o:8 * o + 8])
        mm256_setzero_ps(acc)
        mm256_fmadd_ps(acc, a, b)
        mm256_storeu_ps(y[8 * o:8 * o + 8], acc)
    mm256_loadu_pd(c, z[0:4])
    mm256_storeu_pd(z[4:8], c)
""", tag="s6")
    return outputs_of([ns["k6"]])


@session
def s_two_procs_shared_callees():
    ns = mkprocs(COMMON + """
@proc
def p1(x: f32[4, 4], x2: f32[4, 4], y: f64[4, 4], y2: f64[4, 4]):
    copy4(x[0, :], x2[1, :])
    copy4d(y[0, :], y2[:, 1])

@proc
def p2(n: size, x: f32[n, 4], w: f32[n + 4]):
    assert n >= 1
    for i in seq(0, n):
        copy4(x[i, :], w[0:4])
    sc: f32
    sc = 2.0
    scale(n, w[0:n], sc)
    CfgA.a = 2
""", tag="s7")
    return outputs_of([ns["p2"], ns["p1"]])


@session
def s_halide_like_blur():
    ns = mkprocs("""
@proc
def blur(H: size, W: size, inp: f32[H + 2, W + 2], out: f32[H, W]):
    bx: f32[H + 2, W]
    for y in seq(0, H + 2):
        for x in seq(0, W):
            bx[y, x] = (inp[y, x] + inp[y, x + 1] + inp[y, x + 2]) / 3.0
    for y in seq(0, H):
        for x in seq(0, W):
            out[y, x] = (bx[y, x] + bx[y + 1, x] + bx[y + 2, x]) / 3.0
""", tag="s8")
    from exo.stdlib.scheduling import divide_loop, simplify, cut_loop, shift_loop, specialize, fission, unroll_loop, parallelize_loop, set_memory, lift_alloc
    from exo.libs.memories import DRAM_STATIC
    p = ns["blur"]
    p = divide_loop(p, "y #1", 2, ["yo", "yi"], tail="cut_and_guard")
    p = divide_loop(p, "x #1", 4, ["xo", "xi"], tail="guard")
    p = cut_loop(p, "y #0", 1)
    p = specialize(p, p.find_loop("yo").body(), ["yo == 0", "yo == 1"])
    p = simplify(p)
    return outputs_of([p])


@session
def s_divmod_helpers():
    # every static helper of the back end at once (floor division and floor modulo on possibly negative
    # operands), next to operands that are provably non-negative
    ns = mkprocs(COMMON + """
@proc
def k9(n: size, k: index, x: f32[n + 8], y: f32[8]):
    assert k >= -4
    assert k <= 4
    for i in seq(0, n):
        x[(i + k + 8) / 2 + (i + k + 8) % 2] = y[(k + 4) % 8] + y[(k + 4) / 2]
        if (k - 1) % 3 == 0:
            x[i] += y[(k + 8) % 8]
        if (k - 1) / 3 == 0:
            x[i] += y[i % 8]
""", tag="s9")
    return outputs_of([ns["k9"]])


def run_session(name):
    return SESSIONS[name]()
