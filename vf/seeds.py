"""Seed catalogue: small Exo programs (real source, real front end), grouped by
the feature they collide on.  Every guarded primitive has an enabling seed and
an 'unsafe twin' where its side condition is the only reason to refuse."""
import itertools
import textwrap


class Seed:
    def __init__(self, name, group, src, entry=None, callees=(), configs=(), quick=True):
        self.name = name
        self.group = group
        self.src = textwrap.dedent(src)
        self.entry = entry
        self.callees = tuple(callees)  # names in the namespace usable for replace/call_eqv/noop
        self.configs = tuple(configs)
        self.quick = quick
        self.eqv = ()

    def build(self):
        from .exoutil import mkprocs
        import re

        ns = mkprocs(self.src, tag=self.name.replace("/", "_"))
        entry = self.entry or re.findall(r"^def\s+(\w+)", self.src, re.M)[-1]
        return ns[entry], ns


SEEDS = []


def S(name, group, src, **kw):
    SEEDS.append(Seed(name, group, src, **kw))


CFG = """
@config
class CFG:
    a: index
    b: index
    f: f32
    t: bool
"""

# ------------------------------------------------------------------ loops
S("loops/l1", "loops", """
@proc
def l1(n: size, x: f32[n], y: f32[n]):
    for i in seq(0, n):
        y[i] = x[i] * 2.0
""")
S("loops/l2", "loops", """
@proc
def l2(n: size, m: size, a: f32[n, m], b: f32[m, n]):
    for i in seq(0, n):
        for j in seq(0, m):
            b[j, i] = a[i, j] + 1.0
""")
S("loops/l3lit", "loops", """
@proc
def l3lit(x: f32[4, 6], y: f32[4]):
    for i in seq(0, 4):
        y[i] = 0.0
        for j in seq(0, 6):
            y[i] += x[i, j]
""")
S("loops/lo_nonzero", "loops", """
@proc
def lonz(n: size, x: f32[n + 2]):
    for i in seq(1, n + 1):
        x[i] = x[i] + 1.0
    for i in seq(2, 4):
        x[0] += 1.0
""")
S("loops/zero_trip", "loops", """
@proc
def ztrip(n: size, x: f32[n + 1], y: f32[2]):
    for i in seq(n, n):
        x[0] = 2.0
    for i in seq(1, 1):
        y[0] = 3.0
    for i in seq(0, n - 1):
        x[i] = 1.0
    for j in seq(0, n):
        y[1] = 4.0
""")
S("loops/divmod_bounds", "loops", """
@proc
def dmb(n: size, x: f32[n]):
    assert n % 4 == 0
    for io in seq(0, n / 4):
        for ii in seq(0, 4):
            x[4 * io + ii] = 1.0
""")
S("loops/tri", "loops", """
@proc
def tri(n: size, x: f32[n, n]):
    for i in seq(0, n):
        for j in seq(0, i):
            x[i, j] = 1.0
""")
S("loops/join", "loops", """
@proc
def joinl(n: size, x: f32[n + 4], y: f32[n + 4]):
    for i in seq(0, 2):
        x[i] = 1.0
    for i in seq(2, 4):
        x[i] = 1.0
    for i in seq(0, 2):
        y[i] = 1.0
        x[i] = 2.0
    for i in seq(2, 4):
        y[i] = 1.0
    for i in seq(0, 2):
        y[i] = 5.0
    for i in seq(3, 4):
        y[i] = 5.0
""")
S("loops/fuse", "loops", """
@proc
def fusel(n: size, x: f32[n], y: f32[n], z: f32[n + 1]):
    for i in seq(0, n):
        x[i] = 1.0
    for i in seq(0, n):
        y[i] = x[i]
    for i in seq(0, n):
        z[i] = 2.0
    for i in seq(0, n):
        y[i] = z[i + 1]
    for j in seq(0, n):
        z[n - 1 - j] = 3.0
""")
S("loops/idem", "loops", """
@proc
def idem(n: size, m: size, x: f32[n], s: f32):
    for i in seq(0, n):
        for j in seq(0, m):
            x[i] = 1.0
    for k in seq(0, m):
        s += 1.0
    for k in seq(0, m):
        x[0] = x[0] * 2.0
""")

# ------------------------------------------------------------------- dep
S("dep/raw", "dep", """
@proc
def raw(n: size, x: f32[n + 1], y: f32[n + 1], s: f32):
    x[0] = 1.0
    y[0] = x[0]
    x[0] = 2.0
    s = y[0]
    s += x[0]
    for i in seq(0, n):
        x[i] = y[i] + 1.0
        y[i] = x[i + 1]
""")
S("dep/carry", "dep", """
@proc
def carry(n: size, x: f32[n + 1], y: f32[n + 1]):
    for i in seq(0, n):
        for j in seq(0, n):
            x[j] = x[j + 1] + y[i]
    for i in seq(1, n):
        y[i] = y[i - 1]
        x[i] = 0.0
""")
S("dep/skew2d", "dep", """
@proc
def skew(n: size, x: f32[n + 1, n + 1]):
    for i in seq(1, n):
        for j in seq(0, n):
            x[i, j] = x[i - 1, j + 1]
""")
S("dep/selfupdate", "dep", """
@proc
def selfupd(n: size, x: f32[n + 1], y: f32[n + 1], z: f32[n + 1], s: f32):
    for i in seq(0, n):
        x[0] = x[0] * 2.0
        y[i] = x[0]
    for i in seq(0, n):
        s = s + 1.0
        z[i] = s
    for i in seq(0, n):
        for j in seq(0, n):
            z[0] = z[0] + y[j]
            x[j] = z[0]
""")
S("dep/scalar_between", "dep", """
@proc
def scb(n: size, x: f32[n], y: f32[n]):
    acc: f32
    acc = 0.0
    for i in seq(0, n):
        acc += x[i]
        y[i] = acc
""")

# ----------------------------------------------------------------- alloc
S("alloc/stage", "alloc", """
@proc
def stg(n: size, x: f32[n], y: f32[n]):
    for i in seq(0, n):
        t: f32
        t = x[i]
        t = t * 2.0
        y[i] = t
""")
S("alloc/buf2d", "alloc", """
@proc
def buf2d(n: size, x: f32[n, 4], y: f32[n, 4]):
    for i in seq(0, n):
        tmp: f32[4]
        for j in seq(0, 4):
            tmp[j] = x[i, j]
        for j in seq(0, 4):
            y[i, j] = tmp[j] + 1.0
""")
S("alloc/carried", "alloc", """
@proc
def carried(n: size, x: f32[n], y: f32[n]):
    t: f32
    t = 0.0
    for i in seq(0, n):
        y[i] = t
        t = x[i]
    u: f32[n]
    for i in seq(0, n):
        u[i] = x[i]
    for i in seq(0, n):
        y[i] += u[n - 1 - i]
""")
S("alloc/reuse", "alloc", """
@proc
def reuse(n: size, x: f32[n], y: f32[n]):
    a: f32[n]
    b: f32[n]
    for i in seq(0, n):
        a[i] = x[i]
    for i in seq(0, n):
        b[i] = a[i] + 1.0
    for i in seq(0, n):
        y[i] = b[i] + a[i]
    c: f32[n]
    for i in seq(0, n):
        c[i] = y[i]
    for i in seq(0, n):
        x[i] = c[i]
    d: f32
    pass
""")
S("alloc/dims", "alloc", """
@proc
def dims(x: f32[4, 6], y: f32[4, 6]):
    t: f32[4, 6]
    for i in seq(0, 4):
        for j in seq(0, 6):
            t[i, j] = x[i, j]
    for i in seq(0, 4):
        for j in seq(0, 6):
            y[i, j] = t[i, j] * 2.0
""")
S("alloc/fold", "alloc", """
@proc
def fold(n: size, x: f32[n + 2], y: f32[n]):
    t: f32[n + 2]
    for i in seq(0, n):
        t[i] = x[i]
        t[i + 1] = x[i + 1]
        y[i] = t[i] + t[i + 1]
""")
S("alloc/dep_extent", "alloc", """
@proc
def depext(n: size, x: f32[n + 1]):
    for i in seq(0, n):
        t: f32[i + 1]
        t[i] = x[i]
        x[i + 1] = t[i]
""")
S("alloc/dep_extent2", "alloc", """
@proc
def depext2(n: size, x: f32[n + 1, n + 1]):
    for i in seq(0, n):
        for j in seq(0, n):
            t: f32[j + 1]
            t[j] = x[i, j]
            x[i, j + 1] = t[j]
""")
S("alloc/stencil", "alloc", """
@proc
def stencil(n: size, x: f32[n], y: f32[n]):
    assert n >= 2
    for i in seq(0, n):
        if 0 < i and i < n - 1:
            y[i] = x[i - 1] + x[i] + x[i + 1]
    for i in seq(1, n - 1):
        y[i] += x[i - 1] + x[i + 1]
""")
S("alloc/unroll_buf", "alloc", """
@proc
def ubuf(n: size, x: f32[n, 2], y: f32[n]):
    for i in seq(0, n):
        t: f32[2]
        t[0] = x[i, 0]
        t[1] = x[i, 1]
        y[i] = t[0] + t[1]
    u: f32[n]
    for i in seq(0, n):
        u[i] = 1.0
""")

S("alloc/unroll_buf_win", "alloc", """
@proc
def ubw_fill(d: [f32][4], s: [f32][4]):
    for j in seq(0, 4):
        d[j] = s[j] + 1.0

@proc
def ubufw(x: f32[4], y: f32[4]):
    t: f32[2, 4]
    ubw_fill(t[0, :], x)
    w = t[1, 0:4]
    for j in seq(0, 4):
        w[j] = x[j] * 2.0
    ubw_fill(y[0:4], t[1, :])
    for j in seq(0, 4):
        y[j] += t[0, j]
""", callees=("ubw_fill",))

# ------------------------------------------------------------------- win
S("win/basic", "win", """
@proc
def wbasic(n: size, x: f32[n + 2, 4], y: [f32][n]):
    w = x[1:n + 1, 2]
    for i in seq(0, n):
        y[i] = w[i]
    v = x[0, 0:4]
    for j in seq(0, 4):
        v[j] = 0.0
""")
S("win/wow", "win", """
@proc
def wow(x: f32[6, 6]):
    w = x[1:5, 1:5]
    v = w[1:3, 2]
    for i in seq(0, 2):
        v[i] = 1.0
    for i in seq(0, 4):
        w[i, i] = 2.0
""")
S("win/call", "win", """
@proc
def fill(m: size, d: [f32][m], s: [f32][m]):
    for k in seq(0, m):
        d[k] = s[k]

@proc
def wcall(n: size, x: f32[n, 4], y: f32[4, n], z: f32[4]):
    for i in seq(0, n):
        fill(4, x[i, :], z)
    for j in seq(0, 4):
        fill(n, y[j, :], x[:, j])
""", callees=("fill",))
S("win/stride_assert", "win", """
@proc
def sa_callee(m: size, d: [f32][m]):
    assert stride(d, 0) == 1
    for k in seq(0, m):
        d[k] = 1.0

@proc
def sacall(n: size, x: f32[n, 4], y: [f32][n, 4]):
    assert stride(y, 1) == 1
    for i in seq(0, n):
        sa_callee(4, x[i, :])
        sa_callee(4, y[i, :])
""", callees=("sa_callee",))
S("win/local", "win", """
@proc
def wlocal(n: size, y: f32[n]):
    t: f32[n, 2]
    for i in seq(0, n):
        t[i, 0] = 1.0
        t[i, 1] = 2.0
    w = t[:, 1]
    for i in seq(0, n):
        y[i] = w[i]
""")

# ------------------------------------------------------------------ call
S("call/inline", "call", """
@proc
def axpy(m: size, a: f32, xs: [f32][m], ys: [f32][m]):
    for i in seq(0, m):
        t: f32
        t = a * xs[i]
        ys[i] += t

@proc
def cinl(n: size, a: f32, x: f32[n], y: f32[n], i: index):
    assert i >= 0
    axpy(n, a, x, y)
    t: f32
    t = 1.0
    axpy(n, t, y, x)
""", callees=("axpy",))
S("call/replace1", "call", """
@proc
def vcopy(m: size, d: [f32][m], s: [f32][m]):
    for k in seq(0, m):
        d[k] = s[k]

@proc
def vcopy4(d: [f32][4], s: [f32][4]):
    assert stride(d, 0) == 1
    assert stride(s, 0) == 1
    for k in seq(0, 4):
        d[k] = s[k]

@proc
def vadd(m: size, d: [f32][m], s: [f32][m]):
    for k in seq(0, m):
        d[k] += s[k]

@proc
def vset0(m: size, d: [f32][m]):
    assert m >= 2
    for k in seq(0, m):
        d[k] = 0.0

@proc
def crep(n: size, x: f32[n, 4], y: f32[n, 4], z: f32[4, n]):
    for i in seq(0, n):
        for j in seq(0, 4):
            y[i, j] = x[i, j]
    for i in seq(0, n):
        for j in seq(0, 4):
            z[j, i] = x[i, j]
    for j in seq(0, 4):
        y[0, j] += x[0, j]
    for j in seq(0, 1):
        y[0, j] = 0.0
    for j in seq(0, n - 1):
        z[0, j] = 0.0
    for j in seq(0, 4):
        y[0, j] = y[0, 3 - j]
""", callees=("vcopy", "vcopy4", "vadd", "vset0"))
S("call/replace2", "call", """
@proc
def gemv(m: size, k: size, A: [f32][m, k], v: [f32][k], o: [f32][m]):
    for i in seq(0, m):
        for j in seq(0, k):
            o[i] += A[i, j] * v[j]

@proc
def sc(alpha: f32, m: size, v: [f32][m]):
    for i in seq(0, m):
        v[i] = alpha * v[i]

@proc
def crep2(n: size, A: f32[n, n], B: f32[n, n], v: f32[n], o: f32[n], al: f32):
    for i in seq(0, n):
        for j in seq(0, n):
            o[i] += A[i, j] * v[j]
    for i in seq(0, n):
        for j in seq(0, n):
            o[i] += A[j, i] * v[j]
    for i in seq(0, n):
        for j in seq(0, n):
            o[i] += B[i, j] * o[j]
    for i in seq(0, n):
        v[i] = al * v[i]
    for i in seq(0, n):
        v[i] = v[0] * v[i]
""", callees=("gemv", "sc"))
S("call/replace3", "call", """
@proc
def shifted(m: size, off: index, d: [f32][m + 2], s: [f32][m]):
    assert off >= 0
    assert off <= 2
    for k in seq(0, m):
        d[k + off] = s[k]

@proc
def cond_set(m: size, b: bool, d: [f32][m]):
    for k in seq(0, m):
        if b:
            d[k] = 1.0

@proc
def mat_t(m: size, A: [f32][m, m], B: [f32][m, m]):
    for i in seq(0, m):
        for j in seq(0, m):
            A[i, j] = B[j, i]

@proc
def crep3(n: size, x: f32[n + 4], y: f32[n + 2], P: f32[n, n], Q: f32[n, n], flag: bool):
    for i in seq(0, n):
        x[i + 1] = y[i]
    for i in seq(0, n):
        x[i + 3] = y[i]
    for i in seq(0, n):
        if flag:
            y[i] = 1.0
    for i in seq(0, n):
        for j in seq(0, n):
            P[i, j] = Q[j, i]
    for i in seq(0, n):
        for j in seq(0, n):
            P[i, j] = Q[i, j]
    for i in seq(0, n):
        for j in seq(0, n):
            P[j, i] = Q[i, j]
""", callees=("shifted", "cond_set", "mat_t"))
S("call/guards", "call", """
@proc
def cg_eq(m: size, k: index, d: [f32][m]):
    for i in seq(0, m):
        if i == k:
            d[i] = 1.0

@proc
def cg_lt(m: size, k: index, d: [f32][m]):
    for i in seq(0, m):
        if i < k:
            d[i] = 1.0

@proc
def cg_le(m: size, k: index, d: [f32][m]):
    for i in seq(0, m):
        if i <= k:
            d[i] = 1.0

@proc
def cg_gt(m: size, k: index, d: [f32][m]):
    for i in seq(0, m):
        if i > k:
            d[i] = 1.0

@proc
def cg_ge(m: size, k: index, d: [f32][m]):
    for i in seq(0, m):
        if i >= k:
            d[i] = 1.0

@proc
def cguards(n: size, x: f32[8, n + 4]):
    for j in seq(0, n):
        if j == 2:
            x[0, j] = 1.0
    for j in seq(0, n):
        if j < 2:
            x[1, j] = 1.0
    for j in seq(0, n):
        if j <= 1:
            x[2, j] = 1.0
    for j in seq(0, n):
        if j > 1:
            x[3, j] = 1.0
    for j in seq(0, n):
        if j >= 2:
            x[4, j] = 1.0
    for j in seq(0, n):
        if 2 == j:
            x[5, j] = 1.0
    for j in seq(0, n):
        if 2 > j:
            x[6, j] = 1.0
    for j in seq(0, n):
        if j + 1 < 3:
            x[7, j] = 1.0
""", callees=("cg_eq", "cg_lt", "cg_le", "cg_gt", "cg_ge"))
S("call/noop", "call", """
@proc
def nop(m: size, d: [f32][m]):
    pass

@proc
def cnop(n: size, x: f32[n]):
    for i in seq(0, n):
        x[i] = 1.0
""", callees=("nop",))

# ---------------------------------------------------------------- config
S("config/rw", "config", CFG + """
@proc
def cfgrw(n: size, x: f32[n], s: f32, b: bool):
    CFG.a = 1
    for i in seq(0, n):
        x[i] = 1.0
    if CFG.a == 1:
        x[0] = 2.0
    CFG.f = s
    x[0] = CFG.f
    CFG.b = 0
    CFG.t = b
    if b:
        x[0] = 3.0
""", configs=("CFG",))
S("config/callee", "config", CFG + """
@proc
def setb(v: index):
    CFG.b = v

@proc
def useb(m: size, d: [f32][m]):
    for k in seq(0, m):
        if CFG.b == 1:
            d[k] = 1.0

@proc
def cfgcal(n: size, x: f32[n], s: f32):
    setb(1)
    useb(n, x)
    setb(2)
    s = 4.0
    CFG.f = s
    for i in seq(0, n):
        x[i] = x[i] + s
""", configs=("CFG",), callees=("setb", "useb"))
S("config/loopbound", "config", CFG + """
@proc
def cfglb(n: size, x: f32[n]):
    CFG.a = 0
    CFG.b = 1
    for i in seq(0, n):
        if i == CFG.a:
            x[i] = 1.0
    CFG.a = 1
""", configs=("CFG",))

S("config/eqv", "config", CFG + """
@proc
def kern(m: size, d: [f32][m]):
    CFG.b = 1
    for k in seq(0, m):
        d[k] = 1.0

kern_r = rename(kern, "kern_r")
kern_s = divide_loop(kern, "k", 2, ["ko", "ki"], tail="cut")
kern_a = write_config(kern, kern.body()[0].before(), CFG, "a", "2")
kern_nb = delete_config(kern, kern.find("CFG.b = _"))
kern_b2 = write_config(kern, kern.body()[-1].after(), CFG, "b", "2")

@proc
def kern_other(m: size, d: [f32][m]):
    CFG.b = 1
    for k in seq(0, m):
        d[k] = 2.0

@proc
def cfgeqv(n: size, x: f32[n], y: f32[n]):
    CFG.a = 0
    kern(n, x)
    if CFG.a == 0:
        y[0] = 1.0
    kern(n, y)
    if CFG.b == 1:
        y[0] = 3.0
    kern(n, x)
""", configs=("CFG",), callees=("kern",), quick=True)
SEEDS[-1].eqv = ("kern_r", "kern_s", "kern_a", "kern_nb", "kern_b2", "kern_other", "kern")

# ----------------------------------------------------------------- guard
S("guard/ifs", "guard", """
@proc
def gifs(n: size, x: f32[n], k: index, b: bool):
    for i in seq(0, n):
        if i < 2:
            x[i] = 1.0
        else:
            x[i] = 2.0
    if k >= 0:
        if b:
            x[0] = 3.0
    for i in seq(0, n):
        if n > 2:
            x[i] += 1.0
    if n < 1:
        x[0] = 9.0
""")
S("guard/lift", "guard", """
@proc
def glift(n: size, m: size, x: f32[n, m], b: bool):
    for i in seq(0, n):
        if b:
            for j in seq(0, m):
                x[i, j] = 1.0
    for i in seq(0, n):
        if i == 0:
            x[i, 0] = 2.0
    if n > 1:
        for j in seq(0, m):
            x[1, j] = 3.0
    else:
        x[0, 0] = 4.0
""")

S("guard/else2", "guard", """
@proc
def gelse2(n: size, x: f32[n + 4], y: f32[n + 4]):
    for i in seq(0, n):
        if i < 1:
            x[0] = 1.0
            x[1] = 2.0
        else:
            x[2] = 3.0
            x[3] = 4.0
            t: f32
            t = y[i]
            x[i] = t
    if n > 2:
        y[0] = 1.0
        y[1] = 2.0
    else:
        y[2] = 3.0
        pass
        y[3] = 4.0
""")

S("guard/alloc_else", "guard", """
@proc
def gaelse(n: size, x: f32[n + 2], y: f32[n + 2]):
    t: f32
    if n > 1:
        t = x[0]
        y[0] = t
    else:
        t = x[1]
        y[1] = t + 1.0
    for i in seq(0, n):
        u: f32[2]
        if i < 1:
            u[0] = x[i]
            y[i] = u[0]
        else:
            u[1] = y[i - 1]
            y[i] = u[1] + x[i]
""")

# ------------------------------------------------------------------ expr
S("expr/alg", "expr", """
@proc
def ealg(n: size, x: f32[n], y: f32[n], a: f32, b: f32):
    for i in seq(0, n):
        y[i] = (x[i] + a) + b * x[i]
        x[i] = x[i] + a * b
        y[i] = y[i] - x[i]
""")
S("expr/reduce", "expr", """
@proc
def ered(n: size, m: size, x: f32[n, m], y: f32[n], a: f32):
    for i in seq(0, n):
        y[i] = 0.0
        for j in seq(0, m):
            y[i] += a * x[i, j]
    for i in seq(0, n):
        y[i] = 0.0
        for j in seq(0, m):
            y[i] += a * x[i, j]
            a = 1.0
""")
S("expr/merge", "expr", """
@proc
def emerge(n: size, x: f32[n + 1], y: f32[n + 1], a: f32):
    a = x[0]
    a += y[0]
    a = a
    a += a
    x[0] = 1.0
    x[0] = 2.0
    x[0] = 1.0
    x[1] = 2.0
    y[0] = x[0]
    y[0] += x[1]
    y[1] += 1.0
    y[1] += x[0]
    y[1] += 1.0
    y[1] = 4.0
""")
S("expr/bind", "expr", """
@proc
def ebind(n: size, x: f32[n], y: f32[n], z: f32[n]):
    for i in seq(0, n):
        y[i] = x[i] * 2.0
        x[i] = 0.0
        z[i] = x[i] * 2.0
""")
S("expr/inline_assign", "expr", """
@proc
def eia(n: size, x: f32[n], y: f32[n], z: f32[n]):
    for i in seq(0, n):
        t: f32
        t = y[i]
        z[i] = t + 1.0
    x[0] = y[0]
    z[0] = x[0] + 1.0
    u: f32[n]
    for i in seq(0, n):
        u[i] = y[i]
        y[i] = 0.0
        z[i] = u[i]
""")
S("expr/index", "expr", """
@proc
def eidx(n: size, x: f32[2 * n + 4], k: index):
    assert k >= 0
    assert k < 2
    for i in seq(0, n):
        x[2 * i + 1] = 1.0
        x[i + i] = 2.0
        if i + 1 < n:
            x[i + k] = 3.0
    for i in seq(0, 4):
        x[(i + 1) % 4] = 4.0
        x[i / 2] += 1.0
""")

# ------------------------------------------------------------------- dup
S("dup/shadow", "dup", """
@proc
def dshadow(n: size, x: f32[n, 4]):
    for i in seq(0, n):
        for j in seq(0, 4):
            x[i, j] = 1.0
    for i in seq(0, 4):
        x[0, i] = 2.0
        for j in seq(0, 2):
            x[0, i] += 1.0
""")
S("dup/names", "dup", """
@proc
def dnames(x: f32[4], x_1: f32[4]):
    for i in seq(0, 2):
        t: f32
        t = x[i]
        x_1[i] = t
    for i_1 in seq(0, 2):
        x[i_1 + 2] = x_1[i_1]
""")
S("dup/gen_names", "dup", """
@proc
def dgen(x: f32[4], y: f32[4]):
    for i in seq(0, 2):
        t: f32
        t = x[i]
        y[i] = t
    t_1: f32
    t_1 = 5.0
    y[2] = t_1
    for i_1 in seq(0, 2):
        for i in seq(0, 2):
            y[i] += x[i_1]
""")
S("dup/arg_shadow", "dup", """
@proc
def dargs(n: size, k: index, b: bool, x: f32[n + 4], y: f32[n + 4]):
    assert k >= 0
    assert k < 2
    y[k] = x[k]
    for k in seq(0, n):
        x[k] = 2.0 * x[k]
    for n in seq(0, 2):
        y[n] += 1.0
    if b:
        y[3] = 0.0
""")
S("dup/fission_shared_iter", "dup", """
@proc
def dfc(m: size, d: [f32][m]):
    for i in seq(0, m):
        d[i] = d[i] + 1.0

@proc
def dfis(n: size, x: f32[n, 4], y: f32[n], z: f32[n, 4]):
    for i in seq(0, n):
        y[i] = x[i, 0]
        dfc(4, z[i, 0:4])
        z[i, 1] = x[i, 1] * 2.0

# both halves keep the SAME iterator symbol
dfis = fission(dfis, dfis.find("y[i] = _").after())
""", entry="dfis", callees=("dfc",))

S("dup/inline_same_iter", "dup", """
@proc
def dsi_row(m: size, d: [f32][m], s: [f32][m]):
    for i in seq(0, m):
        d[i] = s[i] + 1.0

@proc
def dsi(n: size, m: size, A: f32[n, m], B: f32[n, m]):
    for i in seq(0, n):
        dsi_row(m, A[i, :], B[i, :])

# after inlining, one access is indexed by two DIFFERENT iterators that are both called `i`
dsi = inline(dsi, dsi.find("dsi_row(_)"))
dsi = inline_window(dsi, dsi.find("d = _"))
dsi = inline_window(dsi, dsi.find("s = _"))
dsi = simplify(dsi)
""", entry="dsi")

S("dup/cut", "dup", """
@proc
def dcut(n: size, x: f32[n + 3]):
    for i in seq(0, n + 2):
        t: f32
        t = x[i]
        x[i + 1] = t
    for i in seq(0, 3):
        u: f32
        u = 1.0
        x[i] = u
""")

# ------------------------------------------------------------------- par
S("par/simple", "par", """
@proc
def psimple(n: size, x: f32[n], y: f32[n], s: f32):
    for i in par(0, n):
        x[i] = y[i]
    for i in seq(0, n):
        y[i] = 2.0
    for i in seq(0, n):
        s += x[i]
""")

# ---------------------------------------------------------------- divmod
S("divmod/neg", "divmod", """
@proc
def dneg(x: f32[8], y: f32[8]):
    for i in seq(0, 3):
        x[(i - 3) % 4 + 4] = 1.0
        y[(i + 5) / 2] = 2.0
    for i in seq(0, 8):
        y[i % 4 + i / 4 * 4] += x[i]
""")
S("divmod/tile", "divmod", """
@proc
def dtile(n: size, x: f32[n], y: f32[n]):
    assert n % 2 == 0
    for i in seq(0, n):
        y[i / 2 * 2 + i % 2] = x[i]
""")

# ------------------------------------------------------------------ extern
S("expr/prec", "expr", """
@proc
def eprec(n: size, x: f32[4 * n + 8], y: f32[n + 1], a: f32, b: f32, k: index):
    assert k >= 0
    assert k <= 1
    for i in seq(0, n):
        y[i] = a - (b - x[i])
        y[i] = (a - b) - x[i]
        y[i] = a / (b / x[i])
        y[i] = (a / b) / x[i]
        y[i] = a * (b + x[i]) - -a
        y[i] = -(a + b) * x[i]
        x[i - (k - 1)] = 1.0
        x[(i + 1) * 2 - k] = 2.0
        x[i / 2 % 3] = 3.0
        x[(i % 4) / 2 + (n - (i - k))] = 4.0
        x[2 * (i + k) + 1] = -1.0 - a
        if (i + 1) / 2 == 1 and (i < 3 or k == 0):
            y[i] = 5.0
""")
S("expr/extern", "expr", """
@proc
def eext(n: size, x: f32[n], y: f32[n]):
    for i in seq(0, n):
        y[i] = relu(x[i]) + select(x[i], 0.0, x[i], 1.0)
""")


# ---------------------------------------------------------------------------
# generated dependence family: for i: S1; S2  over a statement alphabet

DEP_ALPHA = [
    ("xw", "x[i] = a[i]"),
    ("xr", "y[i] = x[i]"),
    ("xrm", "y[i] = x[i + 1]"),
    ("xrp", "z[i + 1] = x[i]"),
    ("xacc", "x[i] += a[i]"),
    ("x0rw", "x[0] = x[0] * 2.0"),
    ("x0w", "x[0] = a[i]"),
    ("x0r", "z[i] = x[0]"),
    ("sacc", "s += a[i]"),
    ("sw", "s = a[i]"),
    ("sr", "z[i] = s"),
    ("cw", "CFG.a = 1"),
    ("cr", "if CFG.a == 1:\n            z[i] = 1.0"),
]


def dep_seed_src(k1, s1, k2, s2):
    return CFG + f"""
@proc
def dep_{k1}_{k2}(n: size, a: f32[n + 1], x: f32[n + 1], y: f32[n + 1], z: f32[n + 1], s: f32):
    for i in seq(0, n):
        {s1}
        {s2}
"""


def dep_seeds():
    out = []
    for (k1, s1), (k2, s2) in itertools.product(DEP_ALPHA, DEP_ALPHA):
        out.append(Seed(f"depgen/{k1}_{k2}", "depgen", dep_seed_src(k1, s1, k2, s2), configs=("CFG",)))
    return out


# generated configuration-dataflow family: every sequence of three statements from a 9-statement
# alphabet over one control-typed field (writes at top level, in loops that run 0 / 1 / n times, under a
# guard, through a callee; reads at top level and in a loop)
CFG_ALPHA = [
    ("w0", "CFG.a = 0"),
    ("w1", "CFG.a = 1"),
    ("r", "if CFG.a == 1:\n        x[0] = x[0] + 1.0"),
    ("l1w", "for i in seq(0, 1):\n        CFG.a = 1"),
    ("lnw", "for i in seq(0, n):\n        CFG.a = 1"),
    ("l0w", "for i in seq(n, n):\n        CFG.a = 1"),
    ("gw", "if n > 1:\n        CFG.a = 1"),
    ("cw", "cfg_set1()"),
    ("lr", "for i in seq(0, n):\n        if CFG.a == 1:\n            x[i] = 2.0"),
]


def cfg_seed_src(items):
    body = "\n    ".join(s for _, s in items)
    nm = "_".join(k for k, _ in items)
    return CFG + f"""
@proc
def cfg_set1():
    CFG.a = 1

@proc
def cfg_{nm}(n: size, x: f32[n + 1]):
    {body}
"""


def cfg_seeds():
    out = []
    for items in itertools.product(CFG_ALPHA, repeat=3):
        nm = "_".join(k for k, _ in items)
        out.append(Seed(f"cfggen/{nm}", "cfggen", cfg_seed_src(items), configs=("CFG",)))
    return out


# generated loop-nest family for interchange / lift_scope / fission-through-nests: outer bounds x inner
# bounds (rectangular, disjoint from the outer range, lower or upper bound depending on the outer
# iterator) x bodies (commuting and non-commuting)
NEST_OUTER = [("on", "0", "n"), ("o24", "2", "4"), ("o02", "0", "2")]
NEST_INNER = [("in", "0", "n"), ("i02", "0", "2"), ("i04", "0", "4"), ("ilo", "i", "n + 2"), ("ihi", "0", "i + 1"), ("iband", "i", "i + 2")]
NEST_BODY = [
    ("set", ["x[i, j] = 1.0"]),
    ("rec", ["s = s * 2.0 + x[i, j]"]),
    ("diag", ["y[i + j] = y[i + j] * 2.0 + x[i, j]"]),
    ("sel", ["if j == 2:", "    c[0] = 1.0", "if j == 3:", "    c[0] = 2.0"]),
    ("last", ["y[j] = x[i, j]"]),
    ("red", ["y[i] += x[i, j]"]),
]


def nest_seed_src(o, i_, b):
    bd = dict(NEST_BODY)[b]
    _, olo, ohi = [t for t in NEST_OUTER if t[0] == o][0]
    _, ilo, ihi = [t for t in NEST_INNER if t[0] == i_][0]
    body = "\n".join("            " + l for l in bd)
    return f"""
@proc
def nest_{o}_{i_}_{b}(n: size, x: f32[n + 6, n + 8], y: f32[2 * n + 16], c: f32[1], s: f32):
    for i in seq({olo}, {ohi}):
        for j in seq({ilo}, {ihi}):
{body}
"""


def nest_seeds():
    out = []
    for (o, _, _), (i_, _, _), (b, _) in itertools.product(NEST_OUTER, NEST_INNER, NEST_BODY):
        out.append(Seed(f"nestgen/{o}_{i_}_{b}", "nestgen", nest_seed_src(o, i_, b)))
    return out


def by_name(name):
    for s in SEEDS:
        if s.name == name:
            return s
    if name.startswith("nestgen/"):
        o, i_, b = name.split("/", 1)[1].split("_")
        return Seed(name, "nestgen", nest_seed_src(o, i_, b))
    if name.startswith("cfggen/"):
        ks = name.split("/", 1)[1].split("_")
        d = dict(CFG_ALPHA)
        return Seed(name, "cfggen", cfg_seed_src([(k, d[k]) for k in ks]), configs=("CFG",))
    if name.startswith("depgen/"):
        for s in dep_seeds():
            if s.name == name:
                return s
    raise KeyError(name)
