"""Explicit-state explorer driving the real scheduling primitives.

A state is (seed, history of events); it is rebuilt by replaying the history on
the real implementation.  Level-synchronous BFS with global de-duplication on
the alpha-canonical form; work units are distributed over worker processes."""
import hashlib
import json
import multiprocessing as mp
import os
import signal
import sys
import time
import traceback

from . import irx, menus, seeds as seedmod

REJECT = ("SchedulingError", "TypeError", "ValueError", "InvalidCursorError", "UnificationError",
          "ParseFragmentError", "BoundsCheckError", "MemGenError", "ConfigError", "ParseError")


class TransitionTimeout(Exception):
    pass


def _alarm(signum, frame):
    raise TransitionTimeout()


def canon_hash(proc):
    return hashlib.sha1(irx.canon(proc._loopir_proc).encode()).hexdigest()


class State:
    def __init__(self, seed, hist):
        self.seed = seed
        self.hist = hist
        self.p0, self.ns = seed.build()
        self.chain = [self.p0]
        p = self.p0
        for ev in hist:
            p = menus.apply_event(p, ev, self.ns)
            self.chain.append(p)
        self.proc = p

    def live_procs(self):
        from exo.API import Procedure

        out = list(self.chain)
        for k, v in self.ns.items():
            if isinstance(v, Procedure) and all(v is not c for c in out):
                out.append(v)
        return out


def _init_worker():
    try:
        import z3

        z3.set_param("timeout", int(os.environ.get("VF_Z3_TIMEOUT_MS", "15000")))
    except Exception:
        pass
    signal.signal(signal.SIGALRM, _alarm)
    seed = int(os.environ.get("VERIF_SEED", "0") or 0)
    if seed:
        # shift the symbol counter: must not change any verdict
        from exo.core.prelude import Sym

        Sym._unq_count += (seed * 7919) % 100003


def run_unit(unit):
    """unit: dict(seed, hist, part, nparts, tier, oracle, opts) -> result dict"""
    t0 = time.time()
    res = {"unit": {k: unit[k] for k in ("seed", "hist", "part", "nparts")},
           "transitions": 0, "outcomes": {}, "per_op": {}, "violations": [], "new": [],
           "oracle_stats": {}, "errors": [], "timeouts": 0}
    try:
        seed = seedmod.by_name(unit["seed"])
        st = State(seed, unit["hist"])
    except Exception:
        if not unit["hist"] and unit["seed"].split("/")[0] in ("cfggen", "depgen", "nestgen"):
            # a member of a generated family that the front end does not accept is outside the space (counted)
            res["oracle_stats"]["generated_seed_not_accepted_by_front_end"] = 1
            return res
        res["errors"].append("state rebuild failed: " + traceback.format_exc()[-800:])
        return res
    import importlib

    omod = importlib.import_module(unit["oracle"])
    oracle = omod.Oracle(st, unit, res)
    try:
        evs = menus.menu(st.proc, seed, unit["tier"], ops=unit.get("ops"), include_unsafe=unit.get("include_unsafe", False))
    except Exception:
        res["errors"].append("menu failed: " + traceback.format_exc()[-800:])
        return res
    if unit.get("order_seed"):
        import random

        random.Random(unit["order_seed"]).shuffle(evs)
    evs = evs[unit["part"]::unit["nparts"]]
    deadline = unit.get("per_transition_s", 30)
    state_fp = irx.canon(st.proc._loopir_proc)
    for ev in evs:
        if unit.get("safe_only") and not menus.is_safe_event(ev):
            continue
        res["transitions"] += 1
        q = None
        exc = None
        skip = unit.get("skip_oracle", False)
        signal.alarm(deadline)
        try:
            if not skip:
                oracle.before(ev)
            q = menus.apply_event(st.proc, ev, st.ns)
        except TransitionTimeout:
            res["timeouts"] += 1
            exc = "timeout"
        except Exception as ex:
            exc = type(ex).__name__
            oracle.exc_obj = ex
        finally:
            signal.alarm(0)
        from exo.API import Procedure

        if exc is None and not isinstance(q, Procedure):
            exc = "non-procedure-result"
            q = None
        if q is not None:
            try:
                h = canon_hash(q)
            except Exception:
                res["errors"].append("canon failed: " + traceback.format_exc()[-500:])
                continue
            same = h == unit.get("self_hash")
            outcome = "same-state" if same else "new-state"
        else:
            outcome = f"rejected({exc})" if exc in REJECT else ("timeout" if exc == "timeout" else f"internal-error({exc})")
            h = None
        res["outcomes"][outcome] = res["outcomes"].get(outcome, 0) + 1
        po = res["per_op"].setdefault(ev["op"], [0, 0])
        po[0] += 1
        if q is not None:
            po[1] += 1
        signal.alarm(max(deadline, 60))
        try:
            if not skip:
                oracle.after(ev, q, exc, outcome)
        except TransitionTimeout:
            res["timeouts"] += 1
        except Exception:
            res["errors"].append(f"oracle crashed on {json.dumps(ev)[:200]}: " + traceback.format_exc()[-800:])
        finally:
            signal.alarm(0)
        if q is not None and outcome == "new-state":
            res["new"].append((h, ev))
        # self-protection: a primitive that mutates its input (a C07 matter) must not poison later transitions
        try:
            if irx.canon(st.proc._loopir_proc) != state_fp:
                res["oracle_stats"]["state_corrupted_by_op_rebuilt"] = res["oracle_stats"].get("state_corrupted_by_op_rebuilt", 0) + 1
                oracle.on_corruption(ev)
                st = State(seed, unit["hist"])
                oracle.rebind(st)
        except Exception:
            res["errors"].append("state re-validation failed: " + traceback.format_exc()[-500:])
    res["wall"] = time.time() - t0
    try:
        oracle.finish()
    except Exception:
        res["errors"].append("oracle finish crashed: " + traceback.format_exc()[-500:])
    return res


def explore(rep, seed_names, oracle, tier, depth, root_parts=4, safe_only=True, include_unsafe=False,
            ops=None, max_states_per_level=None, time_budget_s=None, workers=None, extra=None,
            ops_by_depth=None, oracle_from_depth=0):
    """level-synchronous BFS.  returns summary dict
    ops_by_depth: optional list (one entry per level) of op-name sets restricting the menu at that level
    oracle_from_depth: levels below it only generate successor states (their transitions were judged elsewhere)"""
    workers = workers or min(16, os.cpu_count() or 4)
    t0 = time.time()
    vseed = rep.seed
    seen = set()
    level = []
    for sn in seed_names:
        level.append((sn, [], None))
    stats = {"states": 0, "transitions": 0, "outcomes": {}, "per_op": {}, "timeouts": 0, "cap_hit": None,
             "levels": [], "oracle_stats": {}}
    ctx = mp.get_context("fork")
    pool = ctx.Pool(workers, initializer=_init_worker)
    try:
        for d in range(depth):
            units = []
            for sn, hist, h in level:
                np_ = root_parts if d == 0 else 1
                for part in range(np_):
                    u = {"seed": sn, "hist": hist, "part": part, "nparts": np_, "tier": tier, "oracle": oracle,
                         "safe_only": safe_only, "include_unsafe": include_unsafe,
                         "ops": (ops_by_depth[d] if ops_by_depth else ops), "self_hash": h,
                         "order_seed": vseed, "last_level": d == depth - 1, "skip_oracle": d < oracle_from_depth}
                    if extra:
                        u.update(extra)
                    units.append(u)
            stats["states"] += len(level)
            nxt = []
            level_best = {}
            ntr = 0
            for res in pool.imap_unordered(run_unit, units, chunksize=1):
                ntr += res["transitions"]
                stats["timeouts"] += res["timeouts"]
                for k, v in res["outcomes"].items():
                    stats["outcomes"][k] = stats["outcomes"].get(k, 0) + v
                for k, v in res["per_op"].items():
                    po = stats["per_op"].setdefault(k, [0, 0])
                    po[0] += v[0]
                    po[1] += v[1]
                for k, v in res["oracle_stats"].items():
                    stats["oracle_stats"][k] = stats["oracle_stats"].get(k, 0) + v
                for e in res["errors"]:
                    rep.harness_error(e)
                for sig, art in res["violations"]:
                    rep.violation(sig, art)
                for h, ev in res["new"]:
                    key = (res["unit"]["seed"], h)
                    if key in seen:
                        continue
                    # representative path of a new state = the smallest one (independent of worker timing)
                    cand = (res["unit"]["seed"], res["unit"]["hist"] + [ev], h)
                    ck = json.dumps(cand[1], sort_keys=True)
                    if key not in level_best or ck < level_best[key][0]:
                        level_best[key] = (ck, cand)
                if time_budget_s and time.time() - t0 > time_budget_s:
                    stats["cap_hit"] = f"time budget {time_budget_s}s at depth {d + 1}"
                    break
            for key, (ck, cand) in level_best.items():
                seen.add(key)
                nxt.append(cand)
            stats["transitions"] += ntr
            stats["levels"].append({"depth": d + 1, "states_expanded": len(level), "transitions": ntr, "new_states": len(nxt)})
            if stats["cap_hit"]:
                pool.terminate()
                break
            nxt.sort(key=lambda x: (x[0], json.dumps(x[1], sort_keys=True)))
            if max_states_per_level and len(nxt) > max_states_per_level:
                stats["cap_hit"] = f"state cap {max_states_per_level} at depth {d + 1} ({len(nxt)} new states)"
                nxt = nxt[:: max(1, len(nxt) // max_states_per_level)][:max_states_per_level]
            level = nxt
        stats["frontier_unexpanded"] = len(level) if not stats["cap_hit"] else None
        stats["distinct_states_seen"] = len(seen) + len(seed_names)
    finally:
        pool.terminate()
        pool.join()
    return stats
