"""C harness: compile the C emitted for a procedure together with a generated
driver (sanitizers on), run it on every control valuation with concrete data and
parse the dumped final state."""
import os
import re
import shutil
import subprocess
import tempfile
from fractions import Fraction

from exo.core.LoopIR import LoopIR, T

from . import interp, inputs
from .poly import Poly

CTYPE = {"F32": "float", "F64": "double", "INT8": "int8_t", "UINT8": "uint8_t", "UINT16": "uint16_t", "INT32": "int32_t",
         "Num": "float"}

CFLAGS = ["-std=c11", "-O1", "-g", "-mavx2", "-mfma", "-fsanitize=address,undefined", "-fno-sanitize-recover=all",
          "-Werror=incompatible-pointer-types", "-Werror=discarded-qualifiers", "-Werror=implicit-function-declaration",
          "-Werror=int-conversion", "-Dmalloc=vf_malloc", "-Dfree=vf_free"]


def init_val(argidx, i, pattern=0, unsigned=False):
    if unsigned:
        return ((argidx * 7 + i * 3 + 1) % 11) if pattern == 0 else (i % 2) + ((argidx + i) % 3)
    if pattern == 0:
        return ((argidx * 7 + i * 3 + 1) % 11) - 5
    return (1 if (argidx + i) % 3 else -1) * ((i % 2) + 0)


def conc_data(argorder, pattern=0, unsigned=()):
    def data(name, i):
        return Poly.const(init_val(argorder[name], i, pattern, name in unsigned))

    return data


def unsigned_args(proc_ir):
    out = set()
    for a in proc_ir.args:
        if a.type.is_numeric() and basetype_name(a.type) in ("UINT8", "UINT16"):
            out.add(str(a.name))
    return out


def basetype_name(ty):
    if isinstance(ty, (T.Tensor, T.Window)):
        ty = ty.basetype() if hasattr(ty, "basetype") else ty.type
    return type(ty).__name__


def parse_proto(h, name):
    m = re.search(r"\n\s*(?:void)\s+" + re.escape(name) + r"\(\s*(.*?)\s*\);", h, re.S)
    if not m:
        raise ValueError(f"prototype of {name} not found")
    parts = [p.strip() for p in m.group(1).split(",")]
    out = []
    for p in parts:
        mm = re.match(r"(.*?)(\w+)$", p)
        out.append((mm.group(1).strip(), mm.group(2)))
    return out


def ctx_fields(h):
    """[(config, field, ctype)] from the generated context struct"""
    out = []
    m = re.search(r"typedef struct (\w+) \{(.*?)\} \1;", h, re.S)
    if not m:
        return None, out
    body = m.group(2)
    for sm in re.finditer(r"struct (\w+) \{(.*?)\} \1;", body, re.S):
        for fm in re.finditer(r"\s*([\w ]+?)\s+(\w+);", sm.group(2)):
            out.append((sm.group(1), fm.group(2), fm.group(1).strip()))
    return m.group(1), out


def make_driver(proc_ir, h, valuations, hname, pattern=0):
    """valuations: list of (ctrl, layouts, cfg0).  Returns driver C text and
    per-valuation metadata needed to interpret the dump."""
    name = str(proc_ir.name)
    proto = parse_proto(h, name)
    ctxname, cfields = ctx_fields(h)
    argorder = {str(a.name): i for i, a in enumerate(proc_ir.args)}
    L = ['#include <stdio.h>', '#include <stdlib.h>', '#include <string.h>', '#include <stdint.h>', '#include <stdbool.h>',
         f'#include "{hname}"',
         'long vf_live = 0; long vf_allocs = 0; long vf_bad_free = 0;',
         '#undef malloc', '#undef free',
         'void *vf_malloc(size_t n){ vf_live++; vf_allocs++; return malloc(n ? n : 1); }',
         'void vf_free(void *p){ if(!p){ vf_bad_free++; return; } vf_live--; free(p); }',
         'static double vf_init(int a, long i){ return (double)(((a*7 + i*3 + 1) % 11) - 5); }' if pattern == 0 else
         'static double vf_init(int a, long i){ return (double)((((a+i)%3)?1:-1) * (i%2)); }',
         'static double vf_initu(int a, long i){ return (double)((a*7 + i*3 + 1) % 11); }' if pattern == 0 else
         'static double vf_initu(int a, long i){ return (double)((i%2) + ((a+i)%3)); }']
    uns = unsigned_args(proc_ir)
    metas = []
    for k, (ctrl, lay, cfg0) in enumerate(valuations):
        it = interp.Interp()
        env = {}
        body = [f"static void run_{k}(void) {{"]
        if ctxname:
            body.append(f"  {ctxname} ctxt; memset(&ctxt, 0, sizeof ctxt);")
            for (c, f, cty) in cfields:
                key = (c, f)
                if key in cfg0:
                    v = cfg0[key]
                    body.append(f"  ctxt.{c}.{f} = {int(v) if not isinstance(v, bool) else ('true' if v else 'false')};")
                elif cty in ("float", "double"):
                    body.append(f"  ctxt.{c}.{f} = ({cty})3;")
            ctxarg = "&ctxt"
        else:
            ctxarg = "NULL"
        call_args = [ctxarg]
        dumps = []
        frees = []
        meta = {"bufs": []}
        for (cty, cname), fa in zip(proto[1:], proc_ir.args):
            nm = str(fa.name)
            ty = fa.type
            if not ty.is_numeric():
                v = ctrl[nm]
                env[fa.name] = v
                call_args.append(("true" if v else "false") if isinstance(v, bool) else str(int(v)))
                continue
            bt = CTYPE[basetype_name(ty)]
            if ty.is_tensor_or_window():
                shp = [it.ev(hh, env) for hh in ty.shape()]
                st, view = interp.make_arg_view(nm, shp, lay.get(nm, "dense"), ty.is_win(), lambda n, i: None)
            else:
                st, view = interp.make_arg_view(nm, [], "dense", False, lambda n, i: None)
            env[fa.name] = view
            n = len(st.cells)
            ai = argorder[nm]
            body.append(f"  {bt} *{nm}_b = ({bt}*)malloc(sizeof({bt}) * {max(n, 1)});")
            body.append(f"  for (long i = 0; i < {n}; i++) {nm}_b[i] = ({bt}){'vf_initu' if nm in uns else 'vf_init'}({ai}, i);")
            if "struct" in cty:
                strides = ", ".join(str(s) for s in view.strides)
                call_args.append(f"({cty}){{ {nm}_b + {view.off}, {{ {strides} }} }}")
            else:
                call_args.append(f"{nm}_b + {view.off}")
            dumps.append(f'  printf("B {nm} {n}"); for (long i = 0; i < {n}; i++) printf(" %.17g", (double){nm}_b[i]); printf("\\n");')
            frees.append(f"  free({nm}_b);")
            meta["bufs"].append((nm, n))
        body.append(f'  printf("R {k}\\n"); fflush(stdout);')
        body.append("  long live0 = vf_live;")
        body.append(f"  {name}({', '.join(call_args)});")
        body.append('  printf("M %ld %ld\\n", vf_live - live0, vf_bad_free);')
        body += dumps
        if ctxname:
            for (c, f, cty) in cfields:
                body.append(f'  printf("C {c}.{f} %.17g\\n", (double)ctxt.{c}.{f});')
        body += frees
        body.append('  printf("E\\n"); fflush(stdout);')
        body.append("}")
        L += body
        metas.append(meta)
    L.append("int main(void) {")
    for k in range(len(valuations)):
        L.append(f"  run_{k}();")
    L.append("  return 0;\n}")
    return "\n".join(L) + "\n", metas


def parse_dump(txt):
    """-> list of dict(k, live_delta, bad_free, bufs{name:[floats]}, cfg{name:float}, complete)"""
    runs = []
    cur = None
    for line in txt.splitlines():
        if line.startswith("R "):
            cur = {"k": int(line[2:]), "bufs": {}, "cfg": {}, "complete": False, "live": None}
            runs.append(cur)
        elif cur is None:
            continue
        elif line.startswith("M "):
            a, b = line[2:].split()
            cur["live"] = int(a)
            cur["bad_free"] = int(b)
        elif line.startswith("B "):
            parts = line.split()
            cur["bufs"][parts[1]] = [float(x) for x in parts[3:]]
        elif line.startswith("C "):
            parts = line.split()
            cur["cfg"][parts[1]] = float(parts[2])
        elif line.startswith("E"):
            cur["complete"] = True
    return runs


def build_and_run(c, h, driver, hname="prog.h", cc="gcc", extra_flags=(), keep=False, timeout=900, extra_files=None):
    """-> dict(compile_ok, compile_err, rc, stdout, stderr)"""
    try:
        return _build_and_run(c, h, driver, hname, cc, extra_flags, keep, timeout, extra_files)
    except subprocess.TimeoutExpired as ex:
        return {"compile_ok": False, "compile_err": f"TIMEOUT: {ex}", "stage": "timeout"}


def _build_and_run(c, h, driver, hname, cc, extra_flags, keep, timeout, extra_files):
    d = tempfile.mkdtemp(prefix="vfc_", dir=os.environ.get("VF_TMP", "/tmp"))
    try:
        with open(os.path.join(d, hname), "w") as f:
            f.write(h)
        with open(os.path.join(d, "prog.c"), "w") as f:
            f.write(c)
        with open(os.path.join(d, "driver.c"), "w") as f:
            f.write(driver)
        for fn, content in (extra_files or {}).items():
            with open(os.path.join(d, fn), "w") as f:
                f.write(content)
        exe = os.path.join(d, "a.out")
        # the driver defines the counting allocator; only prog.c sees the -Dmalloc remapping
        objp = os.path.join(d, "prog.o")
        r = subprocess.run([cc] + CFLAGS + list(extra_flags) + ["-c", "prog.c", "-o", objp], cwd=d, capture_output=True, text=True, timeout=timeout)
        if r.returncode != 0:
            return {"compile_ok": False, "compile_err": r.stderr[-3000:], "stage": "prog"}
        flags = [f for f in CFLAGS if not f.startswith("-Dmalloc") and not f.startswith("-Dfree")]
        r = subprocess.run([cc] + flags + list(extra_flags) + ["driver.c", objp, "-lm", "-o", exe], cwd=d, capture_output=True, text=True, timeout=timeout)
        if r.returncode != 0:
            return {"compile_ok": False, "compile_err": r.stderr[-3000:], "stage": "driver"}
        env = dict(os.environ)
        env["ASAN_OPTIONS"] = "detect_leaks=0:abort_on_error=0:halt_on_error=1"
        env["UBSAN_OPTIONS"] = "halt_on_error=1:print_stacktrace=0"
        r = subprocess.run([exe], cwd=d, capture_output=True, text=True, timeout=timeout, env=env)
        return {"compile_ok": True, "rc": r.returncode, "stdout": r.stdout, "stderr": r.stderr[-4000:]}
    finally:
        if not keep:
            shutil.rmtree(d, ignore_errors=True)


def expected_runs(proc_ir, valuations, pattern=0):
    argorder = {str(a.name): i for i, a in enumerate(proc_ir.args)}
    data = conc_data(argorder, pattern, unsigned_args(proc_ir))
    out = []
    for (ctrl, lay, cfg0) in valuations:
        # real-valued config fields start at 3 (see make_driver)
        cfg = dict(cfg0)
        for k, ty in inputs.proc_configs(proc_ir).items():
            if ty.is_real_scalar() and k not in cfg:
                cfg[k] = Poly.const(3)
        out.append(interp.run_proc(proc_ir, ctrl, lay, cfg, data=data))
    return out


def sanitizer_kind(stderr):
    if "AddressSanitizer" in stderr:
        m = re.search(r"AddressSanitizer: ([\w-]+)", stderr)
        return "asan:" + (m.group(1) if m else "?")
    if "runtime error" in stderr:
        m = re.search(r"runtime error: ([^\n]{0,60})", stderr)
        return "ubsan:" + (re.sub(r"[-\d]+", "N", m.group(1)) if m else "?")
    return None
