#!/usr/bin/env python3
"""usage: tools_agentprep.py <PROP> <tag> [hint...]
creates a scratch worktree /tmp/mw/<PROP>_<tag> of /repo's HEAD and prints the prompt for an independent
sub-agent (property text only; nothing from /verif)."""
import json, subprocess, sys
prop, tag = sys.argv[1], sys.argv[2]
hint = " ".join(sys.argv[3:])
wt = f"/tmp/mw/{prop}_{tag}"
subprocess.run(f"cd /repo && git worktree remove --force {wt} 2>/dev/null; git worktree add -q --detach {wt} HEAD", shell=True, check=True)
d = next(json.loads(l) for l in open("/verif/properties.jsonl") if json.loads(l)["id"] == prop)
anch = d["anchors"]
mech = "\n".join(f"  - {m['name']} ({m['where']})" for m in anch.get("mechanism", []))
print(f"""You are helping test a verification framework for the Python project exo-lang/exo (Exo: a Python-embedded DSL and user-schedulable compiler). You have your own scratch git worktree of the repository at {wt} (detached HEAD). Work ONLY inside {wt} and /tmp/mw/out_{prop}_{tag}/ (create it). Do NOT read or touch /verif or /repo (they are off limits), and never commit anything.

Run python as: cd {wt} && PYTHONPATH={wt}/src /venv/bin/python ...   (exo is otherwise imported from another location; the PYTHONPATH override is essential; check with `python -c "import exo; print(exo.__file__)"`).

Here is a semantic property of exo that users rely on:

PROPERTY {prop}: {d['title']}
{d['statement']}
Quantified over: {d['quantifier']['text']}
Code it is anchored in: {', '.join(anch.get('files', []))}
Mechanisms:
{mech}

YOUR TASK: produce ONE realistic change (a plausible bug a maintainer could introduce: a refactoring slip, an off-by-one, a dropped or weakened side-condition, a wrong variable, a stale cache, a missing rename, ...) to the source under {wt}/src/exo that BREAKS this property, while
  (a) the package still imports and the repository's existing test suite still passes:  cd {wt} && PATH=/venv/bin:$PATH PYTHONPATH={wt}/src /venv/bin/python -m pytest -q -p no:cacheprovider -x -n 6 tests/   (the PATH prefix is needed: ninja/cmake live in /venv/bin)   (takes several minutes; all tests that pass without your change must pass with it; golden-file tests compare exact output so your change must not alter output on tested inputs), and
  (b) the breakage needs something SPECIFIC to manifest — a particular multi-step sequence of scheduling operations, an unusual input/shape/cursor position, a particular combination of features, or two cooperating sites that each look fine alone — NOT something ordinary use exposes at once.
{('Direction to explore (a suggestion, pick something else if it does not work out): ' + hint) if hint else ''}
Deliverables, written to /tmp/mw/out_{prop}_{tag}/ :
  1. patch.diff  — `git -C {wt} diff` of your change (source files under src/exo only; small: ideally 1-15 changed lines).
  2. demo.py — a standalone script (run as `PYTHONPATH=<worktree>/src /venv/bin/python demo.py`) that demonstrates the property violation concretely (e.g. builds procedures with @proc, applies the schedule, and shows by executing/interpreting/compiling or by direct inspection that the property is violated). It must exit 0 WITHOUT the patch and exit non-zero WITH the patch. It must not depend on files outside the worktree other than itself.
  3. notes.md — 5-15 lines: what the change is, why it breaks the property, what exactly is needed for it to manifest, and the last line of the pytest run with the patch applied.
Verify all of it yourself: run demo.py with and without the patch (git stash / git apply), and run the full test suite with the patch. If the suite fails, pick a different change. When finished, leave the worktree with the patch APPLIED and report briefly (what you changed, where, demo result with/without, suite result).""")
