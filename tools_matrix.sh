#!/bin/bash
# final detection matrix: every confirmed seeded change x the quick checks expected to see it
# (results are appended to seeded/<id>/meta.json by tools_mutrun.py)
cd /verif
run() { [ -f seeded/$1/meta.json ] && ./tools_mutrun.py "$@" | cut -c1-260; }
run C11-a-shared-key-uf C11
run C13-a-range-mod-straddle C13
run C09-a-par-config-race C09
run C03-a-chain-window-add-zero C03
run C03-b-alias-window-chain C03
run C16-a-children-skip-loop-lo C16
run C16-b-expand-orelse-range C16
run C19-a-partial-eval-by-name C19
run C19-b-rearrange-skip-same-name C19
run C12-a-div-split-cofactor C12
run C12-b-cfold-trunc-div C12
run C18-a-extern-sort-key C18
run C01-a-proc-eqv-stale-copy C11 C10
run C10-a-globenv-loop-first-iter C10
run C05-a-unify-cmp-ops C05
run C15-a-prec-stale-read C15
run C02-a-range-rsub C13 C02
run C08-a-window-of-window-free C08
run C02-b-win-base-chain C08
run C14-a-storeu-pd-stride-assert C14
run C06-a-forward-move-tuple-compare C06
run C06-b-forward-move-attr C06
run C07-a-unroll-buffer-idx-alias C07
run C07-b-resize-dim-window-alias C07
run C17-a-printer-loop-scope-map C17
run C01-b-reorder-loops-bounds C01
run C04-b-lift-scope-inner-lo C04
run C04-a-recompute-divisor C04
